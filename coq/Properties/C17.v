(* C17 - Fixed-size header-extension payload codecs are bit-exact and total.
   Layouts are given as arithmetic on the field values (the specification); the model on the
   left-hand sides uses the masks and shifts of the Go code. *)
From Coq Require Import ZArith List Bool.
From RTP Require Import Base.Bits Base.Res Base.ListX Model.ExtCodecs Proofs.C17_Ext.
Import ListNotations.
Open Scope Z_scope.

(* AudioLevel, RFC 6464: one byte V(1)|level(7); levels above 127 are an error, never truncated *)
Theorem C17_audio_level_marshal : forall level voice, 0 <= level <= 255 ->
  audio_level_marshal (mkAudioLevel level voice)
  = if level <=? 127 then Ok [(if voice then 128 else 0) + level] else Err EOverflow.
Proof. exact audio_level_marshal_spec. Qed.
Print Assumptions C17_audio_level_marshal.

Theorem C17_audio_level_unmarshal : forall prev raw,
  audio_level_unmarshal prev raw
  = match raw with
    | [] => Err EShort
    | b :: _ => Ok (mkAudioLevel (b mod 128) ((b / 128) mod 2 =? 1))
    end.
Proof. exact audio_level_unmarshal_spec. Qed.
Print Assumptions C17_audio_level_unmarshal.

Theorem C17_audio_level_roundtrip : forall prev level voice, 0 <= level <= 127 ->
  exists bs, audio_level_marshal (mkAudioLevel level voice) = Ok bs /\
             audio_level_unmarshal prev bs = Ok (mkAudioLevel level voice).
Proof. exact audio_level_roundtrip. Qed.
Print Assumptions C17_audio_level_roundtrip.

(* TransportCC: 16-bit big-endian *)
Theorem C17_tcc_marshal : forall s, 0 <= s < 65536 -> tcc_marshal s = Ok [s / 256; s mod 256].
Proof. exact tcc_marshal_spec. Qed.
Print Assumptions C17_tcc_marshal.

Theorem C17_tcc_unmarshal : forall prev raw, bytes_ok raw ->
  tcc_unmarshal prev raw = match raw with a :: b :: _ => Ok (a * 256 + b) | _ => Err EShort end.
Proof. exact tcc_unmarshal_spec. Qed.
Print Assumptions C17_tcc_unmarshal.

Theorem C17_tcc_roundtrip : forall prev s, 0 <= s < 65536 ->
  exists bs, tcc_marshal s = Ok bs /\ tcc_unmarshal prev bs = Ok s.
Proof. exact tcc_roundtrip. Qed.
Print Assumptions C17_tcc_roundtrip.

(* PlayoutDelay: MIN(12)|MAX(12) in three bytes; values above 4095 are an error *)
Theorem C17_playout_marshal : forall mn mx, 0 <= mn < 65536 -> 0 <= mx < 65536 ->
  playout_marshal mn mx
  = if (mn <=? 4095) && (mx <=? 4095) then Ok (u24_bytes (mn * 4096 + mx)) else Err EOverflow.
Proof. exact playout_marshal_spec. Qed.
Print Assumptions C17_playout_marshal.

Theorem C17_playout_unmarshal : forall prev raw, bytes_ok raw ->
  playout_unmarshal prev raw
  = match raw with
    | a :: b :: c :: _ => let v := a * 65536 + b * 256 + c in Ok (v / 4096, v mod 4096)
    | _ => Err EShort
    end.
Proof. exact playout_unmarshal_spec. Qed.
Print Assumptions C17_playout_unmarshal.

Theorem C17_playout_roundtrip : forall prev mn mx, 0 <= mn <= 4095 -> 0 <= mx <= 4095 ->
  exists bs, playout_marshal mn mx = Ok bs /\ playout_unmarshal prev bs = Ok (mn, mx).
Proof. exact playout_roundtrip. Qed.
Print Assumptions C17_playout_roundtrip.

(* AbsSendTime: 24-bit big-endian *)
Theorem C17_abs_send_marshal : forall ts, 0 <= ts -> abs_send_marshal ts = Ok (u24_bytes (ts mod 16777216)).
Proof. exact abs_send_marshal_spec. Qed.
Print Assumptions C17_abs_send_marshal.

Theorem C17_abs_send_unmarshal : forall prev raw, bytes_ok raw ->
  abs_send_unmarshal prev raw
  = match raw with a :: b :: c :: _ => Ok (a * 65536 + b * 256 + c) | _ => Err EShort end.
Proof. exact abs_send_unmarshal_spec. Qed.
Print Assumptions C17_abs_send_unmarshal.

Theorem C17_abs_send_roundtrip : forall prev ts, 0 <= ts < 16777216 ->
  exists bs, abs_send_marshal ts = Ok bs /\ abs_send_unmarshal prev bs = Ok ts.
Proof. exact abs_send_roundtrip. Qed.
Print Assumptions C17_abs_send_roundtrip.

(* AbsCaptureTime: 64-bit big-endian timestamp, optional 64-bit two's-complement offset *)
Theorem C17_abs_capture_marshal : forall ts off, 0 <= ts < 18446744073709551616 ->
  abs_capture_marshal (mkAbsCapture ts off)
  = Ok (u64_bytes ts ++ match off with Some o => u64_bytes (u64 o) | None => [] end).
Proof. exact abs_capture_marshal_spec. Qed.
Print Assumptions C17_abs_capture_marshal.

(* whatever the receiver held before *)
Theorem C17_abs_capture_receiver_independent : forall prev prev' raw,
  abs_capture_unmarshal prev raw = abs_capture_unmarshal prev' raw.
Proof. exact abs_capture_unmarshal_indep. Qed.
Print Assumptions C17_abs_capture_receiver_independent.

Theorem C17_abs_capture_lengths : forall prev raw,
  (zlen raw < 8 -> abs_capture_unmarshal prev raw = Err EShort) /\
  (8 <= zlen raw < 16 -> exists ts, abs_capture_unmarshal prev raw = Ok (mkAbsCapture ts None)) /\
  (16 <= zlen raw -> exists ts o, abs_capture_unmarshal prev raw = Ok (mkAbsCapture ts (Some o))).
Proof. exact abs_capture_unmarshal_lengths. Qed.
Print Assumptions C17_abs_capture_lengths.

Theorem C17_abs_capture_roundtrip : forall prev ts off,
  0 <= ts < 18446744073709551616 ->
  match off with Some o => -9223372036854775808 <= o < 9223372036854775808 | None => True end ->
  exists bs, abs_capture_marshal (mkAbsCapture ts off) = Ok bs /\
             abs_capture_unmarshal prev bs = Ok (mkAbsCapture ts off).
Proof. exact abs_capture_roundtrip. Qed.
Print Assumptions C17_abs_capture_roundtrip.

Theorem C17_unmarshal_total :
  (forall p r, audio_level_unmarshal p r <> Panic) /\ (forall p r, tcc_unmarshal p r <> Panic) /\
  (forall p r, playout_unmarshal p r <> Panic) /\ (forall p r, abs_send_unmarshal p r <> Panic) /\
  (forall p r, abs_capture_unmarshal p r <> Panic).
Proof. exact ext_unmarshal_total. Qed.
Print Assumptions C17_unmarshal_total.

Example C17_nonvacuous :
  playout_marshal 4095 1 = Ok [255; 240; 1] /\ playout_unmarshal (0, 0) [255; 240; 1; 7] = Ok (4095, 1).
Proof. split; vm_compute; reflexivity. Qed.
