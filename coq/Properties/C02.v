(* C02 - RTP parsing is memory-safe and bounded on arbitrary input.
   [bytes_ok buf]: buf is a byte string.  [prev] is whatever the receiver held before the call. *)
From Coq Require Import ZArith List.
From RTP Require Import Base.Bits Base.Res Base.ListX Model.RtpPacket Proofs.C02_Safety.
Import ListNotations.
Open Scope Z_scope.

(* no panic: every index and slice expression of the code is in range on every input *)
Theorem C02_no_panic : forall prev_h prev_p buf, bytes_ok buf ->
  header_unmarshal_into prev_h buf <> Panic /\ packet_unmarshal_into prev_p buf <> Panic.
Proof.
  intros. split; [apply header_unmarshal_no_panic|apply packet_unmarshal_no_panic]; assumption.
Qed.
Print Assumptions C02_no_panic.

(* on success the header length lies inside the input, header + payload + padding is the whole
   input, the payload is exactly the input bytes at [n, n+len), and every extension value is
   exactly the input bytes at the offset the decoder took it from, inside the header *)
Theorem C02_bounds : forall prev buf r, bytes_ok buf ->
  packet_unmarshal_into prev buf = Ok r ->
  let p := pr_packet r in
  0 <= pr_n r <= zlen buf /\
  0 <= padding_size p /\
  pr_n r + zlen (payload p) + padding_size p = zlen buf /\
  payload p = take (zlen (payload p)) (drop (pr_n r) buf) /\
  Forall2 (ext_at buf) (extensions (hdr p)) (pr_offsets r) /\
  Forall2 (fun e off => off + zlen (epayload e) <= pr_n r) (extensions (hdr p)) (pr_offsets r).
Proof.
  intros prev buf r Hok H. pose proof (packet_unmarshal_safe prev buf Hok) as Hs. rewrite H in Hs. exact Hs.
Qed.
Print Assumptions C02_bounds.

Theorem C02_header_bounds : forall prev buf r, bytes_ok buf ->
  header_unmarshal_into prev buf = Ok r -> header_post buf r.
Proof.
  intros prev buf r Hok H. pose proof (header_unmarshal_safe prev buf Hok) as Hs. rewrite H in Hs. exact Hs.
Qed.
Print Assumptions C02_header_bounds.

(* decoding into a previously used receiver gives the same result as decoding into a fresh one -
   the same in every field, the extension profile of a packet without extension included (it used
   to keep the previous packet's profile: repair D26) *)
Theorem C02_reuse_packet : forall prev buf,
  packet_unmarshal_into prev buf = packet_unmarshal_into empty_packet buf.
Proof. exact packet_unmarshal_reuse. Qed.
Print Assumptions C02_reuse_packet.

Theorem C02_reuse_header : forall prev buf,
  header_unmarshal_into prev buf = header_unmarshal_into empty_header buf.
Proof. exact header_unmarshal_reuse. Qed.
Print Assumptions C02_reuse_header.

(* non-vacuity: an accepted input - a two-byte element that ends flush with its block, nothing but
   RTP padding behind it; and a hostile one that is rejected - the same element running past the
   declared block into the payload region (accepted before fix D23) *)
Example C02_nonvacuous :
  (exists r, packet_unmarshal_into empty_packet
               [176; 96; 0; 1; 0; 0; 0; 2; 0; 0; 0; 3; 16; 0; 0; 2; 0; 7; 5; 1; 2; 3; 4; 5; 9; 2] = Ok r
             /\ pr_n r = 24 /\ payload (pr_packet r) = [] /\ padding_size (pr_packet r) = 2) /\
  packet_unmarshal_into empty_packet
    [176; 96; 0; 1; 0; 0; 0; 2; 0; 0; 0; 3; 16; 0; 0; 1; 7; 5; 1; 2; 3; 4; 5; 9; 2] = Err EShort.
Proof. split; [eexists; split; [vm_compute; reflexivity|]; repeat split|vm_compute; reflexivity]. Qed.
