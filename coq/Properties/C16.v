(* C16 - Audio payloaders split losslessly; Opus is passed through.
   This file holds statements only; each is closed by [exact] of a lemma proved in Proofs/. *)
From Coq Require Import ZArith List Bool.
From RTP Require Import Base.Res Base.ListX Base.Own Model.Audio Proofs.C16_Audio.
Import ListNotations.
Open Scope Z_scope.

(* For every input and every MTU >= 1 the G711 fragments are owned copies that concatenate to
   the input, every fragment except the last is exactly MTU bytes, none exceeds the MTU and
   none is empty unless the input is. *)
Theorem C16_g711_split : forall mtu p, 1 <= mtu ->
  exists fs, g711_payload mtu (Some p) = Ok (map Own fs)
    /\ concat fs = p
    /\ all_but_last_full mtu fs
    /\ Forall (fun f => zlen f <= mtu) fs
    /\ (p <> [] -> Forall (fun f => f <> []) fs).
Proof. exact g711_split. Qed.
Print Assumptions C16_g711_split.

(* G722 runs the same code. *)
Theorem C16_g722_split : forall mtu p, 1 <= mtu ->
  exists fs, g722_payload mtu (Some p) = Ok (map Own fs)
    /\ concat fs = p
    /\ all_but_last_full mtu fs
    /\ Forall (fun f => zlen f <= mtu) fs
    /\ (p <> [] -> Forall (fun f => f <> []) fs).
Proof. exact g711_split. Qed.
Print Assumptions C16_g722_split.

Theorem C16_g711_total : forall mtu p, 0 <= mtu -> g711_payload mtu p <> Panic.
Proof. exact g711_total. Qed.
Print Assumptions C16_g711_total.

Theorem C16_opus_payload : forall mtu p, opus_payload mtu (Some p) = Ok [Own p].
Proof. exact opus_payload_spec. Qed.
Print Assumptions C16_opus_payload.

Theorem C16_opus_unmarshal : forall p,
  (p <> [] -> exists r, opus_unmarshal (Some p) = Ok r /\ resolve (fun _ => p) r = p)
  /\ opus_unmarshal None = Err ENil
  /\ opus_unmarshal (Some []) = Err EShort.
Proof. exact opus_unmarshal_spec. Qed.
Print Assumptions C16_opus_unmarshal.

Theorem C16_partition : forall m p, audio_is_partition_head p = true /\ audio_is_partition_tail m p = true.
Proof. intros; split; reflexivity. Qed.
Print Assumptions C16_partition.

(* the number of fragments: one (empty) fragment for an empty input, ceil(len / mtu) otherwise - no empty
   fragment appended at exact multiples of the MTU, none merged or lost; G722 runs the same code *)
Theorem C16_g711_count : forall mtu p, 1 <= mtu ->
  exists fs, g711_payload mtu (Some p) = Ok (map Own fs) /\
    zlen fs = if zlen p =? 0 then 1 else (zlen p + mtu - 1) / mtu.
Proof. exact g711_count. Qed.
Print Assumptions C16_g711_count.

Theorem C16_g722_count : forall mtu p, 1 <= mtu ->
  exists fs, g722_payload mtu (Some p) = Ok (map Own fs) /\
    zlen fs = if zlen p =? 0 then 1 else (zlen p + mtu - 1) / mtu.
Proof. exact g711_count. Qed.
Print Assumptions C16_g722_count.

(* Opus payloader then OpusPacket.Unmarshal: the single fragment, whatever the MTU, decodes to the input *)
Theorem C16_opus_end_to_end : forall mtu p, p <> [] ->
  exists f r, opus_payload mtu (Some p) = Ok [Own f] /\ opus_unmarshal (Some f) = Ok r /\ resolve (fun _ => f) r = p.
Proof. exact opus_end_to_end. Qed.
Print Assumptions C16_opus_end_to_end.

Example C16_count_at_exact_multiple :
  g711_payload 3 (Some [1;2;3;4;5;6]) = Ok [Own [1;2;3]; Own [4;5;6]] /\ (6 + 3 - 1) / 3 = 2.
Proof. split; vm_compute; reflexivity. Qed.

(* the premises are satisfiable on a non-trivial input: 7 bytes at MTU 3 *)
Example C16_nonvacuous :
  g711_payload 3 (Some [1;2;3;4;5;6;7]) = Ok [Own [1;2;3]; Own [4;5;6]; Own [7]].
Proof. vm_compute. reflexivity. Qed.
