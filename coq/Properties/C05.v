(* C05 - Header extension accessors behave as an ordered map that survives the wire.
   [am_*] (Spec/OrderedMap.v) is the ordered map: last value per id, first-insertion order;
   its laws (get after set, other keys untouched, ids appended once, delete removes) are proved there.
   [spec_step] is that map plus the per-profile acceptance rules of RFC 8285 / RFC 3550.
   [shape_ok h]: no elements while the X flag is off - true of a fresh header, of a header preset to a
   profile, and of everything Unmarshal returns. *)
From Coq Require Import ZArith List Lia.
From RTP Require Import Base.Bits Base.Res Base.ListX Model.RtpPacket Spec.OrderedMap Proofs.C05_Accessors Proofs.C05_Wire.
Import ListNotations.
Open Scope Z_scope.

(* any finite sequence of Set/Del/Get/GetIDs: every answer, and the final contents, are those of
   the ordered map; which calls return nil and which an error is decided by the profile rules *)
(* [run_fits]: no call of the sequence would push the extension elements beyond 65535 words, the most the
   16-bit length field can count - SetExtension refuses such a call (D36), and a refused call leaves the
   header unchanged (C05_error_unchanged).  C05_fits: on a header without a repeated id - every header
   reachable from the four starting states, and every wire that names no id twice - the premise holds for
   every sequence of calls (14 x 17 or 255 x 257 bytes are far below the limit). *)
Theorem C05_refines : forall ops h, shape_ok h -> run_fits h ops ->
  let '(h', outs) := run model_step h ops in
  run spec_step (abs_state h) ops = (abs_state h', outs) /\ shape_ok h'.
Proof. exact accessors_refine. Qed.
Print Assumptions C05_refines.

Theorem C05_fits : forall ops h, Forall op_ok ops -> shape_ok h -> exts_inv h -> run_fits h ops.
Proof. exact inv_run_fits. Qed.
Print Assumptions C05_fits.

(* D36, repaired in /repo: a header off the wire whose two-byte block is full to the last of its 65535 words
   (1020 elements of 255 bytes under one id) - one more element used to be accepted, and Marshal then wrote
   the low 16 bits of the word count; now the call is refused, while replacing a value within the limit
   still works *)
Example C05_block_limit_repaired :
  let h := mkHeader 2 false true false 96 1 2 3 [] 4096 (repeat (mkExt 1 (repeat 7 255)) 1020) in
  snd (set_extension h 2 [9; 8; 7]) = Some ESize /\ fst (set_extension h 2 [9; 8; 7]) = h /\
  snd (set_extension h 1 (repeat 8 255)) = None /\ snd (set_extension h 1 (repeat 8 256)) = Some ESize.
Proof. cbv zeta. repeat split; vm_compute; reflexivity. Qed.

(* a call that returns an error leaves the header unchanged *)
Theorem C05_error_unchanged : forall h o h' e, model_step h o = (h', RDone (Some e)) -> h' = h.
Proof. exact error_leaves_unchanged. Qed.
Print Assumptions C05_error_unchanged.

(* "deleted ids absent" for EVERY header, also one obtained from Unmarshal of a wire that names an id more
   than once (C05_refines holds there too, but a map that holds a key twice is no ordered map: this is the
   clause that still has to hold, and did not before the repair of D33 - the second element stayed) *)
Theorem C05_deleted_absent : forall h id h', del_extension h id = (h', None) ->
  get_extension h' id = None /\ (forall l, get_extension_ids h' = Some l -> ~ In id l).
Proof. exact deleted_absent. Qed.
Print Assumptions C05_deleted_absent.

Example C05_deleted_absent_nonvacuous :
  let wire := [144; 96; 0; 1; 0; 0; 0; 2; 0; 0; 0; 3; 16; 0; 0; 2; 5; 1; 170; 5; 2; 187; 204; 0] in
  exists r h', header_unmarshal_into empty_header wire = Ok r /\
    get_extension_ids (hr_header r) = Some [5; 5] /\
    del_extension (hr_header r) 5 = (h', None) /\ get_extension_ids h' = None /\ get_extension h' 5 = None.
Proof. do 2 eexists. split; [vm_compute; reflexivity|]. repeat split; vm_compute; reflexivity. Qed.

(* no call panics (the accessors are total functions in the model) and neither does a following
   Marshal, for any header whatsoever *)
Theorem C05_marshal_total : forall h p, header_marshal h <> Panic /\ packet_marshal p <> Panic.
Proof. intros. split; [apply header_marshal_total|apply packet_marshal_total]. Qed.
Print Assumptions C05_marshal_total.

(* the headers reachable from a well-shaped start by ids 0..255 keep the invariant ... *)
Theorem C05_reachable_inv : forall ops h, Forall op_ok ops -> shape_ok h -> exts_inv h ->
  shape_ok (fst (run model_step h ops)) /\ exts_inv (fst (run model_step h ops)).
Proof. exact run_preserves_inv. Qed.
Print Assumptions C05_reachable_inv.

(* ... under which every value the accessors report is returned unchanged by GetExtension after
   Marshal and Unmarshal; Marshal may refuse only a legacy value that is not whole 32-bit words.
   (No bound on the size of the value is assumed: since the repair of D32 SetExtension refuses a legacy value
   of more than 65535 words, the largest the 16-bit length field can count, and exts_inv records it.) *)
Theorem C05_wire : forall h id v,
  fixed_ok h -> extension h = true -> exts_inv h ->
  get_extension h id = Some v ->
  (header_marshal h = Err EShortBuffer /\ zlen v mod 4 <> 0 /\
   extension_profile h <> profile_one_byte /\ ext_form (extension_profile h) <> profile_two_byte)
  \/ (exists bs r, header_marshal h = Ok bs /\ header_unmarshal_into empty_header bs = Ok r /\
                   get_extension (hr_header r) id = Some v).
Proof. exact accepted_survives_wire. Qed.
Print Assumptions C05_wire.

(* ... and the same for EVERY header obtained from Unmarshal - a wire may name an id any number of times,
   carry one-byte elements with id 0, and fill the block to the last of its 65535 words - and for
   everything reachable from it by calls with ids 0..255: the invariant [exts_inv_w] carries the size of
   the block instead of the distinctness of the ids, and SetExtension keeps it since the repair of D36 *)
Theorem C05_wire_unmarshalled : forall buf r ops id v,
  bytes_ok buf -> header_unmarshal_into empty_header buf = Ok r -> Forall op_ok ops ->
  let h := fst (run model_step (hr_header r) ops) in
  extension h = true -> get_extension h id = Some v ->
  (header_marshal h = Err EShortBuffer /\ zlen v mod 4 <> 0 /\
   extension_profile h <> profile_one_byte /\ ext_form (extension_profile h) <> profile_two_byte)
  \/ (exists bs r', header_marshal h = Ok bs /\ header_unmarshal_into empty_header bs = Ok r' /\
                    get_extension (hr_header r') id = Some v).
Proof. exact unmarshalled_survives_wire. Qed.
Print Assumptions C05_wire_unmarshalled.

(* a wire that names id 5 twice; one value replaced, one id added, the doubled id deleted: what is left
   comes back from the wire *)
Example C05_wire_unmarshalled_nonvacuous :
  let wire := [144; 96; 0; 1; 0; 0; 0; 2; 0; 0; 0; 3; 16; 0; 0; 2; 5; 1; 170; 5; 2; 187; 204; 0] in
  exists r, header_unmarshal_into empty_header wire = Ok r /\
    let h := fst (run model_step (hr_header r) [OSet 7 [1; 2; 3]; ODel 5; OSet 9 []]) in
    extension h = true /\ get_extension h 7 = Some [1; 2; 3] /\ get_extension h 9 = Some [] /\ get_extension h 5 = None.
Proof. eexists. split; [vm_compute; reflexivity|]. vm_compute. repeat split. Qed.

(* the four starting states satisfy the premises *)
Example C05_starts :
  let fresh := empty_header in
  let one := mkHeader 2 false true false 0 0 0 0 [] profile_one_byte [] in
  let two := mkHeader 2 false true false 0 0 0 0 [] profile_two_byte [] in
  let legacy := mkHeader 2 false true false 0 0 0 0 [] 4660 [] in
  Forall (fun h => shape_ok h /\ exts_inv h /\ fixed_ok h) [fresh; one; two; legacy].
Proof.
  cbv zeta. repeat constructor; unfold shape_ok, exts_inv, ids; cbn; try discriminate; try lia; auto;
    try (intros _; repeat split; try lia; constructor).
Qed.

(* non-vacuity: set, replace, delete, then read back *)
Example C05_nonvacuous :
  snd (run model_step empty_header [OSet 5 [1; 2]; OSet 9 [3]; OSet 5 [7]; ODel 9; OIds; OGet 5])
  = [RDone None; RDone None; RDone None; RDone None; RIds (Some [5]); RVal (Some [7])].
Proof. vm_compute. reflexivity. Qed.
