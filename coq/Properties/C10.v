(* C10 - H264 packetization is lossless and RFC 6184-shaped.
   C10_lossless: for any sequence of valid NAL units (and C10_access_unit: for any Annex-B stream
   of them), any payloader state reachable on valid input (held_valid: the parameter sets it holds
   are valid units) and any MTU 3..65535, feeding the payloader's output in order to one H264Packet
   (Annex-B or AVC mode, whatever its fragment buffer held) yields exactly the units the hold-back
   rule [deliver] delivers - AUD and filler dropped, SPS and PPS held until the next other unit and
   then sent first (as one STAP-A when it fits the MTU, otherwise each on its own) - each behind
   the receiver's prefix, and leaves the payloader in the state [deliver] says.
   C10_nothing_lost: that rule loses and reorders nothing, whatever the sequence of units. *)
From Coq Require Import ZArith List.
From RTP Require Import Base.Res Base.ListX Base.Own Model.AnnexB Model.H264 Proofs.AnnexBSplit Proofs.C10_H264 Proofs.C10_Lossless.
Import ListNotations.
Open Scope Z_scope.

(* the Annex-B splitter recovers exactly the units of a stream of valid units behind 3- or 4-byte
   start codes *)
Theorem C10_split : forall b n t, AnnexBSplit.valid_nal n -> Forall (fun x => AnnexBSplit.valid_nal (snd x)) t ->
  emit_nalus (stream ((b, n) :: t)) = n :: map snd t.
Proof. exact emit_nalus_stream. Qed.
Print Assumptions C10_split.

(* a unit that fits is sent as itself and decodes to itself *)
Theorem C10_single : forall st n, valid_nal n ->
  h264_unmarshal st (Some n) = Ok (st, packaging (hk_avc st) [] n).
Proof. exact single_decodes. Qed.
Print Assumptions C10_single.

(* a unit that does not fit becomes at least two FU-A fragments: indicator 28|NRI on all, S on the
   first only, E on the last only, the unit's type on all, chunks of 1..MTU-2 bytes that concatenate
   to the unit's body *)
Theorem C10_fua_shape : forall fuel maxf nri ty total rest,
  1 <= maxf -> (length rest < fuel)%nat -> 1 <= zlen rest <= total ->
  (zlen rest = total -> maxf < zlen rest) ->
  exists fs cs, fua_frags fuel maxf nri ty total rest = Ok fs /\
    fua_rel (Z.lor 28 nri) ty (zlen rest =? total) fs cs /\ concat cs = rest /\
    Forall (fun c => 1 <= zlen c <= maxf) cs /\ cs <> [].
Proof. exact fua_frags_spec. Qed.
Print Assumptions C10_fua_shape.

(* ... and H264Packet reassembles exactly that unit from them *)
Theorem C10_fua_reassembly : forall avc nri ty fs cs,
  nri = 0 \/ nri = 32 \/ nri = 64 \/ nri = 96 \/ nri = 128 \/ nri = 160 \/ nri = 192 \/ nri = 224 -> 1 <= ty <= 23 ->
  fua_rel (Z.lor 28 nri) ty true fs cs -> forall stale,
  depack (mkH264Pkt avc stale) (map own_bytes fs)
  = Ok (mkH264Pkt avc [], packaging avc [] (Z.lor nri ty :: concat cs)).
Proof. exact depack_fua. Qed.
Print Assumptions C10_fua_reassembly.

(* IsPartitionHead is true exactly on the first payload of each unit: on a single NAL unit packet,
   on a STAP-A, and on the FU-A fragment that carries the S bit - false on every later fragment *)
From RTP Require Import Proofs.PartitionHead.

Theorem C10_partition_head_fua : forall nri ty fs cs, nri = 0 \/ nri = 32 \/ nri = 64 \/ nri = 96 \/ nri = 128 \/ nri = 160 \/ nri = 192 \/ nri = 224 -> 1 <= ty <= 23 ->
  fua_rel (Z.lor 28 nri) ty true fs cs ->
  map (fun f => h264_is_partition_head (Some (own_bytes f))) fs = true :: repeat false (length fs - 1).
Proof. exact h264_fua_heads. Qed.
Print Assumptions C10_partition_head_fua.

Theorem C10_partition_head_single : forall n, valid_nal n -> h264_is_partition_head (Some n) = true.
Proof. exact h264_single_head. Qed.
Print Assumptions C10_partition_head_single.

Theorem C10_partition_head_stapa : forall b0 b1 t, Z.land b0 31 = 24 -> h264_is_partition_head (Some (b0 :: b1 :: t)) = true.
Proof. exact h264_stapa_head. Qed.
Print Assumptions C10_partition_head_stapa.


Theorem C10_lossless : forall mtu avc, 3 <= mtu <= 65535 -> forall ns st,
  Forall valid_nal ns -> held_valid st ->
  exists fs, h264_nalus mtu st ns = Ok (fst (deliver_all st ns), fs) /\
    held_valid (fst (deliver_all st ns)) /\
    forall stale, exists stale',
      depack (mkH264Pkt avc stale) (map own_bytes fs)
      = Ok (mkH264Pkt avc stale', concat (map (prefixed avc) (snd (deliver_all st ns)))).
Proof. exact nalus_lossless. Qed.
Print Assumptions C10_lossless.

(* the SHAPE of the whole output (the property's second sentence), composed over the hold-back logic and the
   unit walk: for every sequence of valid units and every reachable payloader state the output is a sequence
   of groups in the order in which the units are delivered - [out_shape]: per delivered unit either the unit
   itself as a single NAL unit packet, or at least two FU-A fragments ([fua_rel]: indicator 28 | F | NRI of
   the unit on all, its type on all, S on the first only, E on the last only, non-empty chunks that
   concatenate to its body); per held SPS/PPS pair that fits, one STAP-A - and IsPartitionHead is true on
   exactly the first payload of each group ([hs] is true there and false elsewhere) *)
From RTP Require Import Proofs.C10_Shape.

Theorem C10_shape : forall mtu, 3 <= mtu <= 65535 -> forall ns st,
  Forall valid_nal ns -> held_valid st ->
  exists fs hs, h264_nalus mtu st ns = Ok (fst (deliver_all st ns), fs) /\
    out_shape (snd (deliver_all st ns)) fs hs /\
    map (fun f => h264_is_partition_head (Some (own_bytes f))) fs = hs.
Proof.
  intros mtu Hm ns st Hv Hh. destruct (nalus_shape mtu Hm ns st Hv Hh) as (fs & hs & Hr & Hs).
  exists fs, hs. split; [exact Hr|]. split; [exact Hs|]. exact (out_shape_heads _ _ _ Hs).
Qed.
Print Assumptions C10_shape.

(* SPS, PPS, an 8-byte IDR and a 2-byte slice at MTU 5, STAP-A off: six groups' worth of structure in one call -
   the IDR becomes three fragments, only the first of which is a partition head *)
Example C10_shape_nonvacuous :
  exists fs, h264_nalus 5 (mkH264Pay true None None) [[103; 1]; [104; 2]; [101; 1; 2; 3; 4; 5; 6; 7]; [65; 9]] = Ok (mkH264Pay true None None, fs) /\
    map (fun f => h264_is_partition_head (Some (own_bytes f))) fs = [true; true; true; false; false; true].
Proof. eexists. split; vm_compute; reflexivity. Qed.

Theorem C10_access_unit : forall mtu avc b n t st, 3 <= mtu <= 65535 ->
  AnnexBSplit.valid_nal n -> Forall (fun x => AnnexBSplit.valid_nal (snd x)) t ->
  Forall valid_nal (n :: map snd t) -> held_valid st ->
  exists fs, h264_payload st mtu (Some (stream ((b, n) :: t)))
             = Ok (fst (deliver_all st (n :: map snd t)), fs) /\
    forall stale, exists stale',
      depack (mkH264Pkt avc stale) (map own_bytes fs)
      = Ok (mkH264Pkt avc stale', concat (map (prefixed avc) (snd (deliver_all st (n :: map snd t))))).
Proof. exact access_unit_lossless. Qed.
Print Assumptions C10_access_unit.

(* ... and the hold-back rule [deliver_all] loses and reorders nothing, for EVERY sequence of units
   (several PPS behind one SPS, an SPS or PPS on its own, PPS before SPS, repeated SPS included): what
   has been delivered, followed by what is still held back for the next call, is what was held before
   followed by the units given, AUD and filler dropped - in that order.  (Until repair D25 a second
   PPS replaced the first, and a parameter set without its counterpart was overtaken by the next
   slice.)  [hold_ok] holds of a fresh payloader and is preserved. *)
Theorem C10_nothing_lost : forall ns st, hold_ok st ->
  snd (deliver_all st ns) ++ held (fst (deliver_all st ns)) = held st ++ filter kept ns.
Proof. exact deliver_all_complete. Qed.
Print Assumptions C10_nothing_lost.

Example C10_multiple_pps :
  h264_payload (mkH264Pay false None None) 1200
    (Some [0; 0; 0; 1; 103; 1; 0; 0; 0; 1; 104; 160; 0; 0; 0; 1; 104; 177; 0; 0; 0; 1; 101; 9; 9])
  = Ok (mkH264Pay false None None, [Own [120; 0; 2; 103; 1; 0; 2; 104; 160]; Own [104; 177]; Own [101; 9; 9]]) /\
  h264_payload (mkH264Pay false None None) 1200 (Some [0; 0; 0; 1; 103; 1; 0; 0; 0; 1; 101; 9; 9])
  = Ok (mkH264Pay false None None, [Own [103; 1]; Own [101; 9; 9]]) /\
  hold_ok (mkH264Pay false None None).
Proof. split; [vm_compute; reflexivity|split; [vm_compute; reflexivity|apply hold_ok_fresh]]. Qed.

(* the hold-back rule delivers SPS and PPS in front of the next slice *)
Example C10_deliver_example :
  snd (deliver_all (mkH264Pay false None None) [[103; 1; 2]; [104; 3; 4]; [9; 240]; [101; 5; 6]; [65; 7]])
  = [[103; 1; 2]; [104; 3; 4]; [101; 5; 6]; [65; 7]].
Proof. reflexivity. Qed.

Example C10_nonvacuous :
  exists st fs, h264_payload (mkH264Pay false None None) 5 (Some [0; 0; 1; 101; 1; 2; 3; 4; 5; 6; 7]) = Ok (st, fs) /\
  fs = [Own [28 + 96; 128 + 5; 1; 2; 3]; Own [124; 5; 4; 5; 6]; Own [124; 64 + 5; 7]].
Proof. do 2 eexists. split; [vm_compute; reflexivity|reflexivity]. Qed.

(* D27 (fixed in /repo): a unit whose forbidden_zero_bit is set (0xA5 = F, NRI 1, type 5) keeps it when it is
   fragmented - the FU indicator is 28 + F + NRI = 188 - and comes back with it *)
Example C10_f_bit_fragmented :
  exists st fs, h264_payload (mkH264Pay false None None) 3 (Some [0; 0; 0; 1; 165; 1; 2; 3]) = Ok (st, fs) /\
  fs = [Own [188; 128 + 5; 1]; Own [188; 5; 2]; Own [188; 64 + 5; 3]] /\
  depack (mkH264Pkt false []) (map own_bytes fs) = Ok (mkH264Pkt false [], [0; 0; 0; 1; 165; 1; 2; 3]).
Proof. do 2 eexists. split; [vm_compute; reflexivity|split; vm_compute; reflexivity]. Qed.

(* the former finding KF-C10-stapa-drop (fixed in /repo): at MTU 8 the STAP-A of a 3-byte SPS and a
   3-byte PPS would be 11 bytes; the pair is now sent as two single NAL unit packets in front of
   the slice instead of being dropped.  held_valid holds of a fresh payloader. *)
Example C10_small_mtu_parameter_sets :
  h264_payload (mkH264Pay false None None) 8
    (Some [0; 0; 0; 1; 103; 1; 2; 0; 0; 0; 1; 104; 3; 4; 0; 0; 0; 1; 101; 5; 6])
  = Ok (mkH264Pay false None None, [Own [103; 1; 2]; Own [104; 3; 4]; Own [101; 5; 6]]) /\
  held_valid (mkH264Pay false None None).
Proof. split; [vm_compute; reflexivity|apply held_valid_fresh]. Qed.

(* ---- the decoder against an independent RFC 6184 encoder (Spec/Rfc6184.v): any plan of single
   NAL unit packets, STAP-As of any number of units and FU-A runs cut anywhere (empty fragments
   included), fed to one H264Packet in either framing and whatever its fragment buffer held,
   yields exactly the units of the plan, in order ---- *)
From Coq Require Import Lia.
From RTP Require Import Spec.Rfc6184 Proofs.C10_Decode.

Theorem C10_decode_rfc : forall avc plan, Forall wf_item plan -> forall stale, exists stale',
  depack (mkH264Pkt avc stale) (rfc_stream plan)
  = Ok (mkH264Pkt avc stale', concat (map (prefixed avc) (rfc_units plan))).
Proof. exact decode_rfc. Qed.
Print Assumptions C10_decode_rfc.

Example C10_decode_rfc_nonvacuous :
  let plan := [ISingle [65; 1]; IStapA 96 [[103; 1]; [104]; [6; 5; 5]]; IFua 101 [[]; [1; 2]; []; [3]]] in
  Forall wf_item plan /\
  rfc_stream plan = [[65; 1]; [120; 0; 2; 103; 1; 0; 1; 104; 0; 3; 6; 5; 5];
                     [124; 133]; [124; 5; 1; 2]; [124; 5]; [124; 69; 3]] /\
  rfc_units plan = [[65; 1]; [103; 1]; [104]; [6; 5; 5]; [101; 1; 2; 3]].
Proof.
  split; [|split; reflexivity].
  repeat (apply Forall_cons || apply Forall_nil).
  - cbn. lia.
  - cbn [wf_item]. split; [right; right; right; left; reflexivity|].
    repeat (apply Forall_cons || apply Forall_nil); cbn; lia.
  - cbn. lia.
Qed.
