(* C04 - MarshalTo honours the destination buffer contract.
   The model threads the destination through: bytes the code does not write keep their
   previous value, so "whatever the destination previously contained" is part of the statement. *)
From Coq Require Import ZArith List.
From RTP Require Import Base.Res Base.ListX Model.RtpPacket Spec.Rfc3550 Proofs.C01_Roundtrip Proofs.C04_Compose.
Import ListNotations.
Open Scope Z_scope.

(* destination shorter than MarshalSize(): a short-buffer error (in particular no panic) *)
Theorem C04_packet_short : forall p dst, wf_packet p -> zlen dst < packet_marshal_size p ->
  packet_marshal_to p dst = Err EShortBuffer.
Proof. exact packet_marshal_to_short. Qed.
Print Assumptions C04_packet_short.

Theorem C04_header_short : forall h dst, wf_header h -> zlen dst < header_marshal_size h ->
  header_marshal_to h dst = Err EShortBuffer.
Proof. exact header_marshal_to_short. Qed.
Print Assumptions C04_header_short.

(* sufficient destination: exactly MarshalSize() bytes are written, they are the bytes Marshal()
   returns whatever dst held before, and everything beyond them is untouched *)
Theorem C04_packet_exact : forall p dst, wf_packet p -> packet_marshal_size p <= zlen dst ->
  exists bs, packet_marshal p = Ok bs /\ zlen bs = packet_marshal_size p /\
  packet_marshal_to p dst = Ok (bs ++ drop (packet_marshal_size p) dst, packet_marshal_size p).
Proof.
  intros p dst Hp Hsz. exists (encode (wire_of p)).
  split; [exact (packet_marshal_spec p Hp)|].
  split; [exact (zlen_encode_wire p Hp)|].
  exact (packet_marshal_to_spec p dst Hp Hsz).
Qed.
Print Assumptions C04_packet_exact.

Theorem C04_header_exact : forall h dst, wf_header h -> header_marshal_size h <= zlen dst ->
  exists bs, header_marshal h = Ok bs /\
  header_marshal_to h dst = Ok (bs ++ drop (header_marshal_size h) dst, header_marshal_size h).
Proof.
  intros h dst Hh Hsz. exists (header_wire h).
  split; [exact (header_marshal_spec h Hh)|exact (header_marshal_to_spec h dst Hh Hsz)].
Qed.
Print Assumptions C04_header_exact.

(* C04 composed with C01: the n bytes MarshalTo reports, written into any sufficient destination, parse back
   to the packet; the destination keeps its length and everything beyond n *)
Theorem C04_marshal_to_roundtrip : forall p dst, wf_packet p -> packet_marshal_size p <= zlen dst ->
  exists out, packet_marshal_to p dst = Ok (out, packet_marshal_size p) /\
    zlen out = zlen dst /\
    drop (packet_marshal_size p) out = drop (packet_marshal_size p) dst /\
    exists offs, packet_unmarshal_into empty_packet (take (packet_marshal_size p) out)
                 = Ok (mkPktResult p (header_marshal_size (hdr p)) offs).
Proof. exact marshal_to_roundtrip. Qed.
Print Assumptions C04_marshal_to_roundtrip.

(* "whatever the destination previously contained": two successful MarshalTo calls of one packet, into
   destinations of any contents and lengths, report the same n and wrote the same n bytes *)
Theorem C04_dst_independent : forall p d1 d2 o1 o2 n1 n2, wf_packet p ->
  packet_marshal_to p d1 = Ok (o1, n1) -> packet_marshal_to p d2 = Ok (o2, n2) ->
  n1 = n2 /\ take n1 o1 = take n2 o2.
Proof. exact marshal_to_dst_independent. Qed.
Print Assumptions C04_dst_independent.

(* non-vacuity: a padded packet written into a dirty buffer *)
Example C04_nonvacuous :
  packet_marshal_to (mkPacket (mkHeader 2 true false false 0 0 0 0 [] 0 []) [1; 2] 4) (repeat 238 20)
  = Ok ([160; 0; 0; 0; 0; 0; 0; 0; 0; 0; 0; 0; 1; 2; 0; 0; 0; 4; 238; 238], 18).
Proof. vm_compute. reflexivity. Qed.
