(* abssendtimeextension.go: toNtpTime, toTime, Estimate, NewAbsSendTimeExtension;
   abscapturetimeextension.go: CaptureTime, clock-offset conversions.
   Instants are int64 nanoseconds since the Unix epoch (time.Time.UnixNano / time.Unix(0, ns)).
   Every uint64 / int64 operation that could wrap is written with its wrap. *)
From Coq Require Import ZArith List Lia Bool.
From RTP Require Import Base.Bits Model.ExtCodecs.
Open Scope Z_scope.

Definition ntp_epoch_offset : Z := 2208988800.   (* 0x83AA7E80 *)

Definition to_ntp (unix_nano : Z) : Z :=
  let u := u64 unix_nano in
  let s := u / 1000000000 in
  let s := u64 (s + ntp_epoch_offset) in
  let f := u mod 1000000000 in
  let f := u64 (Z.shiftl f 32) in
  let f := f / 1000000000 in
  let s := u64 (Z.shiftl s 32) in
  Z.lor s f.

Definition to_time (t : Z) : Z :=
  let s := Z.shiftr t 32 in
  let f := Z.land t 4294967295 in
  let f := u64 (f * 1000000000) in
  let f := Z.shiftr f 32 in
  let s := u64 (s - ntp_epoch_offset) in
  let u := u64 (s * 1000000000 + f) in
  i64 u.

Definition new_abs_send_time (send_nano : Z) : Z := Z.shiftr (to_ntp send_nano) 14.

Definition estimate (timestamp : Z) (receive_nano : Z) : Z :=
  let receive_ntp := to_ntp receive_nano in
  let ntp := Z.lor (Z.land receive_ntp 18446743798831644672)       (* 0xFFFFFFC000000000 *)
                   (u64 (Z.shiftl (Z.land timestamp 16777215) 14)) in
  let ntp := if receive_ntp <? ntp then u64 (ntp - 274877906944) else ntp in   (* 0x1000000 << 14 *)
  to_time ntp.

Definition new_abs_capture_time (capture_nano : Z) : abs_capture := mkAbsCapture (to_ntp capture_nano) None.
Definition capture_time (t : abs_capture) : Z := to_time (ac_ts t).

(* Go integer division truncates toward zero *)
Definition quot (a b : Z) := Z.quot a b.
Definition rem (a b : Z) := Z.rem a b.

Definition offset_q32 (duration_ns : Z) : Z :=
  let ns := duration_ns in
  let negative := ns <? 0 in
  let ns := if negative then i64 (- ns) else ns in
  let lsb := Z.land (quot ns 1000000000) 4294967295 in
  let msb := Z.land (quot (i64 (rem ns 1000000000 * 4294967296)) 1000000000) 4294967295 in
  let offset := Z.lor (i64 (Z.shiftl lsb 32)) msb in
  if negative then i64 (- offset) else offset.

Definition new_abs_capture_time_with_offset (capture_nano duration_ns : Z) : abs_capture :=
  mkAbsCapture (to_ntp capture_nano) (Some (offset_q32 duration_ns)).

Definition offset_duration (t : abs_capture) : option Z :=
  match ac_offset t with
  | None => None
  | Some offset =>
    let negative := offset <? 0 in
    let offset := if negative then i64 (- offset) else offset in
    let d := i64 (i64 (quot offset 4294967296 * 1000000000)
                  + quot (i64 (Z.land offset 4294967295 * 1000000000)) 4294967296) in
    Some (if negative then i64 (- d) else d)
  end.
