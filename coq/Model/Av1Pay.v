(* codecs/av1_packet.go: AV1Payloader.Payload, appendOBUPayload, computeWriteSize, leb128Size.
   Packets are kept newest-first while they are built.  Fixed tree: the layer ids remembered for the
   current packet are those of the OBU that opens it (D10). *)
From Coq Require Import ZArith List Lia Bool.
From RTP Require Import Base.Bits Base.Res Base.ListX Model.Leb128 Model.Obu.
Import ListNotations.
Open Scope Z_scope.

(* ---- payloader ---- *)
Definition leb128_size (v : Z) : Z * bool :=
  if 268435456 <=? v then (5, v =? 268435456)
  else if 2097152 <=? v then (4, v =? 2097152)
  else if 16384 <=? v then (3, v =? 16384)
  else if 128 <=? v then (2, v =? 128)
  else (1, false).
Definition compute_write_size (want can : Z) : Z :=
  let '(sz, edge) := leb128_size want in
  if want + sz <=? can then want
  else if edge && (want + sz - 1 <=? can) then want - 1
  else want - sz.


(* packets are kept newest-first *)
Definition set_hdr (f : Z -> Z) (p : list Z) : list Z :=
  match p with [] => [] | h :: t => f h :: t end.

Definition checked_take (n : Z) (l : list Z) : option (list Z * list Z) :=
  if (n <? 0) || (zlen l <? n) then None else Some (take n l, drop n l).

(* fragment loop *)
Fixpoint frag_loop (fuel : nat) (pays : list (list Z)) (obu : list Z) (prev_write : Z)
         (is_last : bool) (mtu : Z) (count : Z) : res (list (list Z) * Z) :=
  match fuel with
  | O => Panic
  | S f =>
    if zlen obu <=? 0 then Ok (pays, count) else
    let remaining := zlen obu in
    let cur := [if prev_write =? 0 then 0 else 128] in
    let pays := match pays with
                | p :: t => (if prev_write =? 0 then p else set_hdr (fun h => Z.lor h 64) p) :: t
                | [] => []
                end in
    let tw := if mtu - 1 <=? remaining then mtu - 1 else remaining in
    if is_last || (mtu - 1 <=? remaining) then
      match checked_take tw obu with
      | None => Panic
      | Some (a, b) => frag_loop f ((set_hdr (fun h => Z.lor h 16) cur ++ a) :: pays) b tw is_last mtu 1
      end
    else
      let tw := compute_write_size tw (mtu - 1) in
      match checked_take tw obu with
      | None => Panic
      | Some (a, b) => frag_loop f ((cur ++ write_leb128 tw ++ a) :: pays) b tw is_last mtu 1
      end
  end.

Definition append_obu (pays : list (list Z)) (obu : list Z) (is_new_seq is_last start_new : bool)
           (mtu count : Z) : res (list (list Z) * Z) :=
  let free0 := match pays with p :: _ => mtu - zlen p | [] => 0 end in
  let need_new := match pays with [] => true | _ => (free0 <=? 0) || start_new end in
  let pays1 := if need_new then [if is_new_seq then 8 else 0] :: pays else pays in
  let free := if need_new then mtu - 1 else free0 in
  let count := if need_new then 0 else count in
  let remaining := zlen obu in
  let tw := if free <=? remaining then free else remaining in
  let use_w := (is_last || (free <=? tw)) && (count <? 3) in
  match pays1 with
  | [] => Panic
  | p :: t =>
    if use_w then
      match checked_take tw obu with
      | None => Panic
      | Some (a, b) =>
        let p' := set_hdr (fun h => Z.lor h (Z.land (u8 (Z.shiftl (count + 1) 4)) 48)) p ++ a in
        frag_loop (S (length obu)) (p' :: t) b tw is_last mtu 0
      end
    else if 2 <=? free then
      let tw := compute_write_size tw free in
      match checked_take tw obu with
      | None => Panic
      | Some (a, b) =>
        frag_loop (S (length obu)) ((p ++ write_leb128 tw ++ a) :: t) b tw is_last mtu (count + 1)
      end
    else
      frag_loop (S (length obu)) pays1 obu 0 is_last mtu count
  end.

Record pst := { pays : list (list Z); pending : list Z; cur : option (Z * Z); cnt : Z;
                new_seq : bool; start_new : bool }.

Definition with_cur (st : pst) (c : option (Z * Z)) : pst :=
  {| pays := pays st; pending := pending st; cur := c; cnt := cnt st;
     new_seq := new_seq st; start_new := start_new st |}.

(* flush the pending OBU, if any, because the next OBU (needing a new packet or not) was seen *)
Definition flush_pending (mtu : Z) (st : pst) (need : bool) : res pst :=
  match pending st with
  | [] => if need
          then Ok {| pays := pays st; pending := []; cur := None; cnt := cnt st;
                     new_seq := new_seq st; start_new := true |}
          else Ok st
  | pe =>
    match append_obu (pays st) pe (new_seq st) need (start_new st) mtu (cnt st) with
    | Panic => Panic
    | Err e => Err e
    | Ok (ps, c) =>
      Ok {| pays := ps; pending := []; cur := if need then None else cur st; cnt := c;
            new_seq := if need then false else new_seq st; start_new := need |}
    end
  end.

Fixpoint pay_loop (fuel : nat) (mtu : Z) (rest : list Z) (st : pst) : res pst :=
  match fuel with
  | O => Panic
  | S f =>
    match rest with
    | [] => Ok st
    | _ =>
      match parse_obu_header rest with
      | None => Ok st
      | Some h =>
        let rest1 := drop (obu_hdr_size h) rest in
        let sz := if ohas_size h then
                    match read_leb128 rest1 with
                    | None => None
                    | Some (v, n) => Some (v, drop n rest1)
                    end
                  else Some (zlen rest1, rest1) in
        match sz with
        | None => Ok st
        | Some (obu_size, rest2) =>
          let need0 := (otype h =? 2) || (otype h =? 1) in
          let need := if need0 then true else
                        match oext h, cur st with
                        | Some (t, s, _), Some (ct, cs) => negb (s =? cs) || negb (t =? ct)
                        | _, _ => false
                        end in
          if zlen rest2 <? obu_size then Ok st else
          match flush_pending mtu st need with
          | Panic => Panic
          | Err e => Err e
          | Ok st2 =>
            let st2 := with_cur st2 (match oext h with Some (t, s, _) => Some (t, s) | None => cur st2 end) in
            if (otype h =? 8) || (otype h =? 2) then pay_loop f mtu (drop obu_size rest2) st2
            else
              let hdr := obu_hdr_marshal {| otype := otype h; oext := oext h; ohas_size := false; ores1 := ores1 h |} in
              let st3 := {| pays := pays st2; pending := hdr ++ take obu_size rest2; cur := cur st2; cnt := cnt st2;
                            new_seq := (otype h =? 1); start_new := start_new st2 |} in
              pay_loop f mtu (drop obu_size rest2) st3
          end
        end
      end
    end
  end.

Definition av1_payload (mtu : Z) (payload : list Z) : res (list (list Z)) :=
  if (mtu <=? 1) || (zlen payload =? 0) then Ok [] else
  match pay_loop (S (length payload)) mtu payload
          {| pays := []; pending := []; cur := None; cnt := 0; new_seq := false; start_new := false |} with
  | Panic => Panic
  | Err e => Err e
  | Ok st =>
    match pending st with
    | [] => Ok (rev (pays st))
    | pe => match append_obu (pays st) pe (new_seq st) true (start_new st) mtu (cnt st) with
            | Panic => Panic
            | Err e => Err e
            | Ok (ps, _) => Ok (rev ps)
            end
    end
  end.

