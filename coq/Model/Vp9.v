(* codecs/vp9_packet.go: VP9Payloader (flexible / non-flexible), VP9Packet.Unmarshal, IsPartitionHead.
   Fixed tree: Unmarshal starts from a zeroed receiver. *)
From Coq Require Import ZArith List Lia Bool.
From RTP Require Import Base.Bits Base.Res Base.ListX Base.Own Model.Vp9Header.
Import ListNotations.
Open Scope Z_scope.

Record vp9pay : Type := mkVp9Pay { v9_flexible : bool; v9_pid : Z; v9_initialized : bool }.

Definition pid_bytes (pid : Z) : list Z := [Z.lor (u8 (Z.shiftr pid 8)) 128; u8 pid].

Fixpoint flex_frags (fuel : nat) (pid maxf : Z) (index : Z) (rest : list Z) : res (list bref) :=
  match fuel with
  | O => Panic
  | S f =>
    if zlen rest <=? 0 then Ok [] else
    let cur := if maxf <? zlen rest then maxf else zlen rest in
    let b0 := 144 in
    let b0 := if index =? 0 then Z.lor b0 8 else b0 in
    let b0 := if zlen rest =? cur then Z.lor b0 4 else b0 in
    match slice rest 0 cur, slice rest cur (zlen rest) with
    | Some a, Some b =>
      match flex_frags f pid maxf (index + cur) b with
      | Ok fs => Ok (Own (b0 :: pid_bytes pid ++ a) :: fs)
      | e => e
      end
    | _, _ => Panic
    end
  end.

Definition payload_flexible (pid mtu : Z) (p : list Z) : res (list bref) :=
  let maxf := mtu - 3 in
  if (if maxf <? zlen p then maxf else zlen p) <=? 0 then Ok []
  else flex_frags (S (length p)) pid maxf 0 p.

(* non-flexible: the loop returns no fragments at all when any fragment would be empty *)
Fixpoint nonflex_frags (fuel : nat) (pid mtu : Z) (non_key : bool) (w h : Z) (index : Z) (rest : list Z)
  : res (option (list bref)) :=
  match fuel with
  | O => Panic
  | S f =>
    if zlen rest <=? 0 then Ok (Some []) else
    let with_ss := negb non_key && (index =? 0) in
    let hs := if with_ss then 11 else 3 in
    let maxf := mtu - hs in
    let cur := if maxf <? zlen rest then maxf else zlen rest in
    if cur <=? 0 then Ok None else
    let b0 := 129 in
    let b0 := if non_key then Z.lor b0 64 else b0 in
    let b0 := if index =? 0 then Z.lor b0 8 else b0 in
    let b0 := if zlen rest =? cur then Z.lor b0 4 else b0 in
    let b0 := if with_ss then Z.lor b0 2 else b0 in
    let ss := if with_ss
              then [24; u8 (Z.shiftr w 8); u8 (Z.land w 255); u8 (Z.shiftr h 8); u8 (Z.land h 255); 1; 20; 1]
              else [] in
    match slice rest 0 cur, slice rest cur (zlen rest) with
    | Some a, Some b =>
      match nonflex_frags f pid mtu non_key w h (index + cur) b with
      | Ok (Some fs) => Ok (Some (Own (b0 :: pid_bytes pid ++ ss ++ a) :: fs))
      | Ok None => Ok None
      | Err e => Err e
      | Panic => Panic
      end
    | _, _ => Panic
    end
  end.

Definition payload_nonflexible (pid mtu : Z) (p : list Z) : res (list bref) :=
  match vp9_header_unmarshal p with
  | Ok hdr =>
    match nonflex_frags (S (length p)) pid mtu (vh_non_key hdr) (vp9_width hdr) (vp9_height hdr) 0 p with
    | Ok (Some fs) => Ok fs
    | Ok None => Ok []
    | Err e => Err e
    | Panic => Panic
    end
  | Err _ => Ok []
  | Panic => Panic
  end.

(* initial_pid: what InitialPictureIDFn returns on first use *)
Definition vp9_payload (st : vp9pay) (initial_pid : Z) (mtu : Z) (payload : option (list Z)) : res (vp9pay * list bref) :=
  let pid := if v9_initialized st then v9_pid st else Z.land initial_pid 32767 in
  let p := match payload with Some l => l | None => [] end in
  match (if v9_flexible st then payload_flexible pid mtu p else payload_nonflexible pid mtu p) with
  | Ok fs => let pid' := u16 (pid + 1) in
             Ok (mkVp9Pay (v9_flexible st) (if 32768 <=? pid' then 0 else pid') true, fs)
  | Err e => Err e
  | Panic => Panic
  end.

(* ---- VP9Packet ---- *)
Record vp9pkt : Type := mkVp9Pkt {
  p9_i : bool; p9_p : bool; p9_l : bool; p9_f : bool; p9_b : bool; p9_e : bool; p9_v : bool; p9_z : bool;
  p9_picture_id : Z; p9_tid : Z; p9_u : bool; p9_sid : Z; p9_d : bool;
  p9_pdiff : list Z; p9_tl0picidx : Z;
  p9_ns : Z; p9_y : bool; p9_g : bool; p9_ng : Z;
  p9_width : list Z; p9_height : list Z; p9_pgtid : list Z; p9_pgu : list bool; p9_pgpdiff : list (list Z);
  p9_payload : list Z }.

Definition bit_set (b m : Z) : bool := negb (Z.land b m =? 0).

Fixpoint parse_ref_indices (fuel : nat) (l : list Z) (acc : list Z) : res (list Z * list Z) :=
  match fuel with
  | O => Panic
  | S f =>
    match l with
    | [] => Err EShort
    | b :: t =>
      let acc := acc ++ [Z.shiftr b 1] in
      if Z.land b 1 =? 0 then Ok (acc, t)
      else if 3 <=? zlen acc then Err ETooManyPDiff
      else parse_ref_indices f t acc
    end
  end.

Fixpoint parse_resolutions (k : nat) (l : list Z) (ws hs : list Z) : res (list Z * list Z * list Z) :=
  match k with
  | O => Ok (ws, hs, l)
  | S k' =>
    match l with
    | a :: b :: c :: d :: t =>
      parse_resolutions k' t (ws ++ [Z.lor (Z.shiftl a 8) b]) (hs ++ [Z.lor (Z.shiftl c 8) d])
    | _ => Err EShort
    end
  end.

Fixpoint parse_pgs (k : nat) (l : list Z) (tids : list Z) (us : list bool) (pds : list (list Z))
  : res (list Z * list bool * list (list Z) * list Z) :=
  match k with
  | O => Ok (tids, us, pds, l)
  | S k' =>
    match l with
    | [] => Err EShort
    | b :: t =>
      let r := Z.land (Z.shiftr b 2) 3 in
      if zlen t <? r then Err EShort
      else parse_pgs k' (drop r t) (tids ++ [Z.shiftr b 5]) (us ++ [bit_set b 16]) (pds ++ [take r t])
    end
  end.

Definition vp9_unmarshal (prev : vp9pkt) (packet : option (list Z)) : res vp9pkt :=
  match packet with
  | None => Err ENil
  | Some [] => Err EShort
  | Some (b0 :: l1) =>
    let fi := bit_set b0 128 in let fp := bit_set b0 64 in let fl := bit_set b0 32 in let ff := bit_set b0 16 in
    let fb := bit_set b0 8 in let fe := bit_set b0 4 in let fv := bit_set b0 2 in let fz := bit_set b0 1 in
    (* picture id *)
    let r1 : res (Z * list Z) :=
      if fi then
        match l1 with
        | [] => Err EShort
        | b :: t =>
          if bit_set b 128 then
            match t with
            | [] => Err EShort
            | c :: t2 => Ok (Z.lor (u16 (Z.shiftl (Z.land b 127) 8)) c, t2)
            end
          else Ok (Z.land b 127, t)
        end
      else Ok (0, l1) in
    match r1 with
    | Err e => Err e | Panic => Panic
    | Ok (pic, l2) =>
      (* layer indices *)
      let r2 : res (Z * bool * Z * bool * Z * list Z) :=
        if fl then
          match l2 with
          | [] => Err EShort
          | b :: t =>
            let sid := Z.land (Z.shiftr b 1) 7 in
            if 5 <=? sid then Err ETooManySpatial
            else if ff then Ok (Z.shiftr b 5, bit_set b 16, sid, bit_set b 1, 0, t)
            else match t with
                 | [] => Err EShort
                 | tl0 :: t2 => Ok (Z.shiftr b 5, bit_set b 16, sid, bit_set b 1, tl0, t2)
                 end
          end
        else Ok (0, false, 0, false, 0, l2) in
      match r2 with
      | Err e => Err e | Panic => Panic
      | Ok (tid, u, sid, d, tl0, l3) =>
        let r3 : res (list Z * list Z) :=
          if ff && fp then parse_ref_indices 4 l3 [] else Ok ([], l3) in
        match r3 with
        | Err e => Err e | Panic => Panic
        | Ok (pdiff, l4) =>
          if fv then
            match l4 with
            | [] => Err EShort
            | b :: t =>
              let ns := Z.shiftr b 5 in
              let y := bit_set b 16 in
              let g := bit_set b 8 in
              match (if y then parse_resolutions (Z.to_nat (ns + 1)) t [] [] else Ok ([], [], t)) with
              | Err e => Err e | Panic => Panic
              | Ok (ws, hs, t2) =>
                match (if g then match t2 with [] => Err EShort | n :: t3 => Ok (n, t3) end else Ok (0, t2)) with
                | Err e => Err e | Panic => Panic
                | Ok (ng, t3) =>
                  match parse_pgs (Z.to_nat ng) t3 [] [] [] with
                  | Err e => Err e | Panic => Panic
                  | Ok (tids, us, pds, t4) =>
                    Ok (mkVp9Pkt fi fp fl ff fb fe fv fz pic tid u sid d pdiff tl0 ns y g ng ws hs tids us pds t4)
                  end
                end
              end
            end
          else Ok (mkVp9Pkt fi fp fl ff fb fe fv fz pic tid u sid d pdiff tl0 0 false false 0 [] [] [] [] [] l4)
        end
      end
    end
  end.

Definition vp9_is_partition_head (payload : option (list Z)) : bool :=
  match payload with Some (b :: _) => bit_set b 8 | _ => false end.
