(* codecs/vp8_packet.go: VP8Payloader.Payload, VP8Packet.Unmarshal, IsPartitionHead. *)
From Coq Require Import ZArith List Lia Bool.
From RTP Require Import Base.Bits Base.Res Base.ListX Base.Own.
Import ListNotations.
Open Scope Z_scope.

Record vp8pay : Type := mkVp8Pay { vp_enable : bool; vp_pid : Z }.

Definition vp8_header_size (st : vp8pay) : Z :=
  if vp_enable st then (if vp_pid st <? 128 then 3 else 4) else 1.

(* the descriptor bytes of one fragment *)
Definition vp8_header (st : vp8pay) (first : bool) : list Z :=
  let b0 := if first then 16 else 0 in
  if vp_enable st then
    if vp_pid st <? 128
    then [Z.lor b0 128; 128; u8 (Z.land (vp_pid st) 127)]
    else [Z.lor b0 128; 128; Z.lor 128 (u8 (Z.land (Z.shiftr (vp_pid st) 8) 127)); u8 (Z.land (vp_pid st) 255)]
  else [b0].

Fixpoint vp8_frags (fuel : nat) (st : vp8pay) (maxf : Z) (first : bool) (rest : list Z) : res (list bref) :=
  match fuel with
  | O => Panic
  | S f =>
    if zlen rest <=? 0 then Ok [] else
    let cur := if maxf <? zlen rest then maxf else zlen rest in
    match slice rest 0 cur, slice rest cur (zlen rest) with
    | Some a, Some b =>
      match vp8_frags f st maxf false b with
      | Ok fs => Ok (Own (vp8_header st first ++ a) :: fs)
      | e => e
      end
    | _, _ => Panic
    end
  end.

Definition vp8_payload (st : vp8pay) (mtu : Z) (payload : option (list Z)) : res (vp8pay * list bref) :=
  let p := match payload with Some l => l | None => [] end in
  let maxf := mtu - vp8_header_size st in
  if (if maxf <? zlen p then maxf else zlen p) <=? 0 then Ok (st, [])
  else
    match vp8_frags (S (length p)) st maxf true p with
    | Ok fs => Ok (mkVp8Pay (vp_enable st) (Z.land (u16 (vp_pid st + 1)) 32767), fs)
    | Err e => Err e
    | Panic => Panic
    end.

(* VP8Packet: the fields Unmarshal sets (all of them, on every successful path) *)
Record vp8pkt : Type := mkVp8Pkt {
  v8_x : Z; v8_n : Z; v8_s : Z; v8_pid : Z; v8_i : Z; v8_l : Z; v8_t : Z; v8_k : Z;
  v8_picture_id : Z; v8_tl0picidx : Z; v8_tid : Z; v8_y : Z; v8_keyidx : Z;
  v8_payload : list Z }.

Definition vp8_unmarshal (prev : vp8pkt) (payload : option (list Z)) : res vp8pkt :=
  match payload with
  | None => Err ENil
  | Some [] => Err EShort
  | Some (b0 :: l1) =>
    let x := Z.shiftr (Z.land b0 128) 7 in
    let n := Z.shiftr (Z.land b0 32) 5 in
    let s := Z.shiftr (Z.land b0 16) 4 in
    let pid := Z.land b0 7 in
    (* extended control bits *)
    let after_x (i l t k : Z) (l2 : list Z) : res vp8pkt :=
      (* picture id *)
      let after_i (pic : Z) (l3 : list Z) : res vp8pkt :=
        let after_l (tl0 : Z) (l4 : list Z) : res vp8pkt :=
          if (t =? 1) || (k =? 1) then
            match l4 with
            | [] => Err EShort
            | b :: l5 =>
              Ok (mkVp8Pkt x n s pid i l t k pic tl0
                           (if t =? 1 then Z.shiftr b 6 else 0)
                           (if t =? 1 then Z.land (Z.shiftr b 5) 1 else 0)
                           (if k =? 1 then Z.land b 31 else 0) l5)
            end
          else Ok (mkVp8Pkt x n s pid i l t k pic tl0 0 0 0 l4) in
        if l =? 1 then
          match l3 with
          | [] => Err EShort
          | b :: l4 => after_l b l4
          end
        else after_l 0 l3 in
      if i =? 1 then
        match l2 with
        | [] => Err EShort
        | b :: l3 =>
          if 0 <? Z.land b 128 then
            match l3 with
            | [] => Err EShort
            | c :: l4 => after_i (Z.lor (Z.shiftl (Z.land b 127) 8) c) l4
            end
          else after_i b l3
        end
      else after_i 0 l2 in
    if x =? 1 then
      match l1 with
      | [] => Err EShort
      | b1 :: l2 =>
        after_x (Z.shiftr (Z.land b1 128) 7) (Z.shiftr (Z.land b1 64) 6)
                (Z.shiftr (Z.land b1 32) 5) (Z.shiftr (Z.land b1 16) 4) l2
      end
    else after_x 0 0 0 0 l1
  end.

Definition vp8_is_partition_head (payload : option (list Z)) : bool :=
  match payload with
  | Some (b :: _) => negb (Z.land b 16 =? 0)
  | _ => false
  end.
