(* codecs/av1_depacketizer.go: AV1Depacketizer.Unmarshal, IsPartitionHead.
   Fixed tree: the fragment kept for the next packet is a copy.  The receiver is mutated before
   errors are detected, so the new state is returned in every case. *)
From Coq Require Import ZArith List Lia Bool.
From RTP Require Import Base.Bits Base.Res Base.ListX Model.Leb128 Model.Obu.
Import ListNotations.
Open Scope Z_scope.

Record av1dep : Type := mkAv1Dep { ad_buffer : list Z; ad_z : bool; ad_y : bool; ad_n : bool }.

(* l = payload[offset:]; k = obuOffset; returns (buffer, result) *)
Fixpoint av1d_loop (fuel : nat) (z y : bool) (count : Z) (l : list Z) (k : Z) (buffer : list Z) (buff : list Z)
  : list Z * res (list Z * Z) :=       (* Ok (buff, final obuOffset) *)
  match fuel with
  | O => (buffer, Panic)
  | S f =>
    match l with
    | [] => (buffer, Ok (buff, k))
    | _ =>
      let is_first := k =? 0 in
      let is_last0 := negb (count =? 0) && (k =? count - 1) in
      (* length of this element and the bytes after its length field *)
      let lenres : res (Z * list Z * bool) :=
        if (count =? 0) || negb is_last0 then
          match read_leb128 l with
          | None => Err ELeb128
          | Some (v, n) =>
            let l1 := drop n l in
            Ok (v, l1, is_last0 || ((count =? 0) && (v =? zlen l1)))
          end
        else Ok (zlen l, l, is_last0) in
      match lenres with
      | Err e => (buffer, Err e)
      | Panic => (buffer, Panic)
      | Ok (len, l1, is_last) =>
        if zlen l1 <? len then (buffer, Err EShort) else
        let elem := take len l1 in
        let l2 := drop len l1 in
        (* continuation of a fragment from the previous packet *)
        if is_first && z && (zlen buffer =? 0) then
          if is_last then (buffer, Ok (buff, k)) else av1d_loop f z y count l2 (k + 1) buffer buff
        else
          let obu := if is_first && z then buffer ++ elem else elem in
          let buffer := if is_first && z then [] else buffer in
          if is_last && y then (obu, Ok (buff, k))
          else if zlen obu =? 0 then av1d_loop f z y count l2 (k + 1) buffer buff
          else
            match parse_obu_header obu with
            | None => (buffer, Err EObuHeader)
            | Some h =>
              if (otype h =? 2) || (otype h =? 8) then av1d_loop f z y count l2 (k + 1) buffer buff
              else
                let body := drop (obu_hdr_size h) obu in
                if ohas_size h then
                  match read_leb128 body with
                  | None => (buffer, Err ELeb128)
                  | Some (sz, n) =>
                    if negb (len =? obu_hdr_size h + sz + n) then (buffer, Err EShort)
                    else let buff := buff ++ obu in
                         if is_last then (buffer, Ok (buff, k)) else av1d_loop f z y count l2 (k + 1) buffer buff
                  end
                else
                  let hdr := obu_hdr_marshal (mkObuHdr (otype h) (oext h) true (ores1 h)) in
                  let buff := buff ++ hdr ++ write_leb128 (zlen body) ++ body in
                  if is_last then (buffer, Ok (buff, k)) else av1d_loop f z y count l2 (k + 1) buffer buff
            end
      end
    end
  end.

Definition av1d_unmarshal (st : av1dep) (payload : option (list Z)) : av1dep * res (list Z) :=
  let p := match payload with Some l => l | None => [] end in
  match p with
  | [] | [_] => (st, Err EShort)
  | b0 :: l1 =>
    let z := negb (Z.land 128 b0 =? 0) in
    let y := negb (Z.land 64 b0 =? 0) in
    let count := Z.shiftr (Z.land 48 b0) 4 in
    let n := negb (Z.land 8 b0 =? 0) in
    let buffer := if n then [] else ad_buffer st in
    let buffer := if negb z && (0 <? zlen buffer) then [] else buffer in
    let '(buffer', r) := av1d_loop (S (length l1)) z y count l1 0 buffer [] in
    let st' := mkAv1Dep buffer' z y n in
    match r with
    | Ok (buff, k) =>
      if negb (count =? 0) && negb (k =? count - 1) then (st', Err EShort) else (st', Ok buff)
    | Err e => (st', Err e)
    | Panic => (st', Panic)
    end
  end.

Definition av1d_is_partition_head (payload : option (list Z)) : bool :=
  match payload with Some (b :: _) => Z.land b 128 =? 0 | _ => false end.
