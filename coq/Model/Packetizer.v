(* packetizer.go: Packetize, GeneratePadding, SkipSamples, EnableAbsSendTime.
   The payloader is a parameter; the clock is an argument of Packetize.  Fixed tree: the fragment
   budget leaves room for the abs-send-time extension in the form its id requires, padding packets carry PaddingSize 255. *)
From Coq Require Import ZArith List Lia Bool.
From RTP Require Import Base.Bits Base.Res Base.ListX Model.RtpPacket Model.Sequencer Model.ExtCodecs Model.Ntp.
Import ListNotations.
Open Scope Z_scope.

(* bytes in front of the payload: the fixed header, plus the extension block that holds the
   abs-send-time element - one-byte form (4 + 1 + 3) for ids up to 14, two-byte form (4 + 2 + 3,
   padded to 12) above *)
Definition abs_overhead (a : Z) : Z := if a =? 0 then 12 else if 14 <? a then 24 else 20.

Record pktz : Type := mkPktz {
  pz_mtu : Z; pz_pt : Z; pz_ssrc : Z; pz_ts : Z; pz_abs : Z; pz_seq : seqr }.

Section WithPayloader.
  (* Payloader.Payload(mtu, payload) *)
  Variable pay : Z -> list Z -> list (list Z).

  Fixpoint build_packets (p : pktz) (s : seqr) (frags : list (list Z)) : seqr * list packet :=
    match frags with
    | [] => (s, [])
    | f :: t =>
      let '(s1, v) := seq_next s in
      let '(s2, ps) := build_packets p s1 t in
      let last := match t with [] => true | _ => false end in
      (s2, mkPacket (mkHeader 2 false false last (pz_pt p) v (pz_ts p) (pz_ssrc p) [] 0 []) f 0 :: ps)
    end.

  Definition set_last_extension (ps : list packet) (id : Z) (v : list Z) : option (list packet) :=
    match rev ps with
    | [] => Some ps
    | lastp :: initr =>
      match set_extension (hdr lastp) id v with
      | (h', None) => Some (rev initr ++ [mkPacket h' (payload lastp) (padding_size lastp)])
      | (_, Some _) => None
      end
    end.

  (* the room offered to the payloader: the MTU less the header (with the abs-send-time block when enabled);
     nothing when the MTU is not larger than that - the subtraction is done in uint16 and must not wrap (D37) *)
  Definition pz_budget (p : pktz) : Z :=
    if pz_mtu p <? abs_overhead (pz_abs p) then 0 else pz_mtu p - abs_overhead (pz_abs p).

  (* returns the new state and the packets (nil is the empty list) *)
  Definition packetize (p : pktz) (payload : list Z) (samples : Z) (now_nano : Z) : pktz * list packet :=
    match payload with
    | [] => (p, [])
    | _ =>
      let frags := pay (pz_budget p) payload in
      let '(s', pkts) := build_packets p (pz_seq p) frags in
      let p' := mkPktz (pz_mtu p) (pz_pt p) (pz_ssrc p) (u32 (pz_ts p + samples)) (pz_abs p) s' in
      match pkts with
      | [] => (p', [])
      | _ =>
        if pz_abs p =? 0 then (p', pkts)
        else
          match abs_send_marshal (new_abs_send_time now_nano) with
          | Ok b => match set_last_extension pkts (u8 (pz_abs p)) b with
                    | Some pkts' => (p', pkts')
                    | None => (p', [])
                    end
          | _ => (p', [])
          end
      end
    end.

  Fixpoint padding_packets (p : pktz) (s : seqr) (n : nat) : seqr * list packet :=
    match n with
    | O => (s, [])
    | S k =>
      let '(s1, v) := seq_next s in
      let '(s2, ps) := padding_packets p s1 k in
      (s2, mkPacket (mkHeader 2 true false false (pz_pt p) v (pz_ts p) (pz_ssrc p) [] 0 []) [] 255 :: ps)
    end.

  Definition generate_padding (p : pktz) (n : Z) : pktz * list packet :=
    let '(s', ps) := padding_packets p (pz_seq p) (Z.to_nat n) in
    (mkPktz (pz_mtu p) (pz_pt p) (pz_ssrc p) (pz_ts p) (pz_abs p) s', ps).

  Definition skip_samples (p : pktz) (n : Z) : pktz :=
    mkPktz (pz_mtu p) (pz_pt p) (pz_ssrc p) (u32 (pz_ts p + n)) (pz_abs p) (pz_seq p).

  Definition enable_abs_send_time (p : pktz) (v : Z) : pktz :=
    mkPktz (pz_mtu p) (pz_pt p) (pz_ssrc p) (pz_ts p) v (pz_seq p).
End WithPayloader.
