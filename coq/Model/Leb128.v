(* codecs/av1/obu/leb128.go: WriteToLeb128, ReadLeb128, EncodeLEB128.  (decodeLEB128, the inverse of
   EncodeLEB128 on the packed form, is no longer called by the library since the repair of D19: ReadLeb128
   accumulates the 7-bit groups directly and so reads back every uint that WriteToLeb128 writes.) *)
From Coq Require Import ZArith List Lia Bool.
From RTP Require Import Base.Bits Base.Res Base.ListX.
Import ListNotations.
Open Scope Z_scope.

(* b := make([]byte, 10); for i := range b { b[i] = byte(in & 0x7f); in >>= 7; if in == 0 { return b[:i+1] }; b[i] |= 0x80 } *)
Fixpoint write_leb128_aux (fuel : nat) (v : Z) : list Z :=
  match fuel with
  | O => []
  | S f => let b := Z.land v 127 in
           let v' := Z.shiftr v 7 in
           if v' =? 0 then [b] else Z.lor b 128 :: write_leb128_aux f v'
  end.
Definition write_leb128 (v : Z) : list Z := write_leb128_aux 10 (u64 v).

(* returns (value, bytes read); None = ErrFailedToReadLEB128
   for i := range in { value |= (uint(in[i]) & 0x7f) << (7 * uint(i)); if in[i]&0x80 == 0 { return value, i+1 } }
   (a shift count of 64 or more leaves nothing of a uint: u64 of the shifted group is 0 then) *)
Fixpoint read_leb128_aux (l : list Z) (acc : Z) (i : Z) : option (Z * Z) :=
  match l with
  | [] => None
  | b :: t => let acc := Z.lor acc (u64 (Z.shiftl (Z.land b 127) (7 * i))) in
              if Z.land b 128 =? 0 then Some (acc, i + 1)
              else read_leb128_aux t acc (i + 1)
  end.
Definition read_leb128 (l : list Z) : option (Z * Z) := read_leb128_aux l 0 0.

(* EncodeLEB128: the same bytes, first byte most significant, packed into one uint (64 bits):
   for { out |= in & 0x7f; in >>= 7; if in != 0 { out |= 0x80; out <<= 8 } else { return out } } *)
Fixpoint encode_leb128_aux (fuel : nat) (inp out : Z) : Z :=
  match fuel with
  | O => out
  | S f => let out := Z.lor out (Z.land inp 127) in
           let inp := Z.shiftr inp 7 in
           if inp =? 0 then out else encode_leb128_aux f inp (u64 (Z.shiftl (Z.lor out 128) 8))
  end.
Definition encode_leb128 (v : Z) : Z := encode_leb128_aux 10 (u64 v) 0.
