(* audiolevelextension.go, transportccextension.go, playoutdelayextension.go,
   abssendtimeextension.go (codec part), abscapturetimeextension.go (codec part). *)
From Coq Require Import ZArith List Lia Bool.
From RTP Require Import Base.Bits Base.Res Base.ListX Base.Bytes.
Import ListNotations.
Open Scope Z_scope.

Definition i64 (x : Z) : Z := (x + 9223372036854775808) mod 18446744073709551616 - 9223372036854775808.

Definition be64 (l : list Z) : Z :=   (* binary.BigEndian.Uint64 on exactly 8 bytes *)
  fold_left (fun acc b => Z.lor (Z.shiftl acc 8) b) l 0.
Definition put64 (v : Z) : list Z :=
  [u8 (Z.shiftr v 56); u8 (Z.shiftr v 48); u8 (Z.shiftr v 40); u8 (Z.shiftr v 32);
   u8 (Z.shiftr v 24); u8 (Z.shiftr v 16); u8 (Z.shiftr v 8); u8 v].

(* --- AudioLevelExtension --- *)
Record audio_level := mkAudioLevel { al_level : Z; al_voice : bool }.

Definition audio_level_marshal (a : audio_level) : res (list Z) :=
  if 127 <? al_level a then Err EOverflow
  else Ok [Z.lor (if al_voice a then 128 else 0) (al_level a)].

Definition audio_level_unmarshal (prev : audio_level) (raw : list Z) : res audio_level :=
  match raw with
  | [] => Err EShort
  | b :: _ => Ok (mkAudioLevel (Z.land b 127) (negb (Z.land b 128 =? 0)))
  end.

(* --- TransportCCExtension --- *)
Definition tcc_marshal (seq : Z) : res (list Z) := Ok (put16 seq).
Definition tcc_unmarshal (prev : Z) (raw : list Z) : res Z :=
  match raw with
  | a :: b :: _ => Ok (be16 a b)
  | _ => Err EShort
  end.

(* --- PlayoutDelayExtension --- *)
Definition playout_marshal (mn mx : Z) : res (list Z) :=
  if (4095 <? mn) || (4095 <? mx) then Err EOverflow
  else Ok [u8 (Z.shiftr mn 4); Z.lor (u8 (Z.shiftl mn 4)) (u8 (Z.shiftr mx 8)); u8 mx].

Definition playout_unmarshal (prev : Z * Z) (raw : list Z) : res (Z * Z) :=
  match raw with
  | a :: b :: c :: _ => Ok (Z.shiftr (be16 a b) 4, Z.land (be16 b c) 4095)
  | _ => Err EShort
  end.

(* --- AbsSendTimeExtension (Timestamp is a uint64) --- *)
Definition abs_send_marshal (ts : Z) : res (list Z) :=
  Ok [u8 (Z.shiftr (Z.land ts 16711680) 16); u8 (Z.shiftr (Z.land ts 65280) 8); u8 (Z.land ts 255)].

Definition abs_send_unmarshal (prev : Z) (raw : list Z) : res Z :=
  match raw with
  | a :: b :: c :: _ => Ok (Z.lor (Z.lor (Z.shiftl a 16) (Z.shiftl b 8)) c)
  | _ => Err EShort
  end.

(* --- AbsCaptureTimeExtension: Timestamp uint64, EstimatedCaptureClockOffset *int64 --- *)
Record abs_capture := mkAbsCapture { ac_ts : Z; ac_offset : option Z }.

Definition abs_capture_marshal (t : abs_capture) : res (list Z) :=
  match ac_offset t with
  | Some off => Ok (put64 (ac_ts t) ++ put64 (u64 off))
  | None => Ok (put64 (ac_ts t))
  end.

Definition abs_capture_unmarshal (prev : abs_capture) (raw : list Z) : res abs_capture :=
  if zlen raw <? 8 then Err EShort
  else
    let ts := be64 (take 8 raw) in
    if 16 <=? zlen raw then Ok (mkAbsCapture ts (Some (i64 (be64 (take 8 (drop 8 raw))))))
    else Ok (mkAbsCapture ts None).     (* fixed tree: a stale offset is cleared *)
