(* codecs/h264_packet.go: H264Payloader.Payload, H264Packet.Unmarshal (parseBody, doPackaging),
   IsPartitionHead.  Fixed tree: held SPS/PPS are copies; a FU-A start fragment resets the buffer; a held SPS/PPS
   pair whose STAP-A exceeds the MTU is sent as two separate units instead of being dropped; held
   parameter sets are never overwritten or overtaken (D25): they go out when another one of their kind,
   a new SPS or any other unit arrives. *)
From Coq Require Import ZArith List Lia Bool.
From RTP Require Import Base.Bits Base.Res Base.ListX Base.Bytes Base.Own Model.AnnexB.
Import ListNotations.
Open Scope Z_scope.

Record h264pay : Type := mkH264Pay { hp_disable_stapa : bool; hp_sps : option (list Z); hp_pps : option (list Z) }.

(* FU-A fragments of nalu[1:] *)
Fixpoint fua_frags (fuel : nat) (maxf : Z) (ref_idc ty : Z) (total : Z) (rest : list Z) : res (list bref) :=
  match fuel with
  | O => Panic
  | S f =>
    if zlen rest <=? 0 then Ok [] else
    let cur := if maxf <? zlen rest then maxf else zlen rest in
    let b1 := if zlen rest =? total then Z.lor ty 128
              else if zlen rest - cur =? 0 then Z.lor ty 64 else ty in
    match slice rest 0 cur, slice rest cur (zlen rest) with
    | Some a, Some b =>
      match fua_frags f maxf ref_idc ty total b with
      | Ok fs => Ok (Own (Z.lor 28 ref_idc :: b1 :: a) :: fs)
      | e => e
      end
    | _, _ => Panic
    end
  end.

(* single NAL unit packet or FU-A fragmentation of one NAL unit *)
Definition emit_single_or_fua (mtu : Z) (nalu : list Z) : res (list bref) :=
  match nalu with
  | [] => Ok []
  | b0 :: body =>
    if zlen nalu <=? mtu then Ok [Own nalu]
    else
      let maxf := mtu - 2 in
      let len := zlen body in
      if (if maxf <? len then maxf else len) <=? 0 then Ok []
      else fua_frags (S (length body)) maxf (Z.land b0 224) (Z.land b0 31) len body
  end.

(* packetizeH264Nalu reads nalu[0] before anything else *)
Definition packetize_nalu (mtu : Z) (nalu : list Z) : res (list bref) :=
  match nalu with [] => Panic | _ => emit_single_or_fua mtu nalu end.

(* flushParameterSets: what is held back goes out, in the order it was given - an SPS and a PPS as
   one STAP-A (on their own if that exceeds the MTU), a parameter set without its counterpart on
   its own *)
Definition flush_params (mtu : Z) (st : h264pay) : res (h264pay * list bref) :=
  let cleared := mkH264Pay (hp_disable_stapa st) None None in
  let individually :=
    match (match hp_sps st with Some s => packetize_nalu mtu s | None => Ok [] end) with
    | Ok f1 =>
      match (match hp_pps st with Some p => packetize_nalu mtu p | None => Ok [] end) with
      | Ok f2 => Ok (cleared, f1 ++ f2)
      | Err e => Err e
      | Panic => Panic
      end
    | Err e => Err e
    | Panic => Panic
    end in
  match hp_sps st, hp_pps st with
  | Some sps, Some pps =>
    let stap := 120 :: put16 (u16 (zlen sps)) ++ sps ++ put16 (u16 (zlen pps)) ++ pps in
    if zlen stap <=? mtu then Ok (cleared, [Own stap]) else individually
  | _, _ => individually
  end.

(* the callback of emitNalus *)
Definition h264_nalu (mtu : Z) (st : h264pay) (nalu : list Z) : res (h264pay * list bref) :=
  match nalu with
  | [] => Ok (st, [])
  | b0 :: _ =>
    let ty := Z.land b0 31 in
    let single st' pre :=
      match emit_single_or_fua mtu nalu with
      | Ok fs => Ok (st', pre ++ fs)
      | Err e => Err e
      | Panic => Panic
      end in
    if (ty =? 9) || (ty =? 12) then Ok (st, [])
    else if ty =? 7 then
      if negb (hp_disable_stapa st) then
        (* an SPS opens a new pair: whatever is still held goes out first *)
        match flush_params mtu st with
        | Ok (st1, fs) => Ok (mkH264Pay (hp_disable_stapa st1) (Some nalu) (hp_pps st1), fs)
        | Err e => Err e
        | Panic => Panic
        end
      else single st []
    else if ty =? 8 then
      if negb (hp_disable_stapa st) then
        match hp_pps st with
        | Some _ =>
          (* a PPS is already held: it goes out (with its SPS) before this one takes its place *)
          match flush_params mtu st with
          | Ok (st1, fs) => Ok (mkH264Pay (hp_disable_stapa st1) (hp_sps st1) (Some nalu), fs)
          | Err e => Err e
          | Panic => Panic
          end
        | None => Ok (mkH264Pay (hp_disable_stapa st) (hp_sps st) (Some nalu), [])
        end
      else single st []
    else
      if negb (hp_disable_stapa st) then
        match flush_params mtu st with
        | Ok (st1, pre) => single st1 pre
        | Err e => Err e
        | Panic => Panic
        end
      else single st []
  end.

Fixpoint h264_nalus (mtu : Z) (st : h264pay) (nalus : list (list Z)) : res (h264pay * list bref) :=
  match nalus with
  | [] => Ok (st, [])
  | n :: t =>
    match h264_nalu mtu st n with
    | Ok (st1, fs1) =>
      match h264_nalus mtu st1 t with
      | Ok (st2, fs2) => Ok (st2, fs1 ++ fs2)
      | e => e
      end
    | e => e
    end
  end.

Definition h264_payload (st : h264pay) (mtu : Z) (payload : option (list Z)) : res (h264pay * list bref) :=
  match payload with
  | None | Some [] => Ok (st, [])
  | Some p => h264_nalus mtu st (emit_nalus p)
  end.

(* ---- H264Packet ---- *)
Record h264pkt : Type := mkH264Pkt { hk_avc : bool; hk_fua : list Z }.

Definition packaging (avc : bool) (buf nalu : list Z) : list Z :=
  if avc then buf ++ put32 (u32 (zlen nalu)) ++ nalu else buf ++ [0; 0; 0; 1] ++ nalu.

(* STAP-A walk over payload[1:] *)
Fixpoint stapa_loop (fuel : nat) (avc : bool) (l : list Z) (acc : list Z) : res (list Z) :=
  match fuel with
  | O => Panic
  | S f =>
    match l with
    | [] => Ok acc
    | [_] => Ok acc                              (* fewer than 2 bytes left: break *)
    | a :: b :: l2 =>
      let size := be16 a b in
      if zlen l2 <? size then Err EShort
      else stapa_loop f avc (drop size l2) (packaging avc acc (take size l2))
    end
  end.

Definition h264_unmarshal (st : h264pkt) (payload : option (list Z)) : res (h264pkt * list Z) :=
  match payload with
  | None | Some [] => Err EShort
  | Some ((b0 :: l1) as p) =>
    let ty := Z.land b0 31 in
    if (0 <? ty) && (ty <? 24) then Ok (st, packaging (hk_avc st) [] p)
    else if ty =? 24 then
      match stapa_loop (S (length l1)) (hk_avc st) l1 [] with
      | Ok r => Ok (st, r)
      | Err e => Err e
      | Panic => Panic
      end
    else if ty =? 28 then
      match l1 with
      | [] => Err EShort
      | b1 :: body =>
        let buf0 := if negb (Z.land b1 128 =? 0) then [] else hk_fua st in
        let buf := buf0 ++ body in
        if negb (Z.land b1 64 =? 0) then
          let nalu := Z.lor (Z.land b0 224) (Z.land b1 31) :: buf in
          Ok (mkH264Pkt (hk_avc st) [], packaging (hk_avc st) [] nalu)
        else Ok (mkH264Pkt (hk_avc st) buf, [])
      end
    else Err EUnhandled
  end.

Definition h264_is_partition_head (payload : option (list Z)) : bool :=
  match payload with
  | Some (b0 :: b1 :: _) =>
    if (Z.land b0 31 =? 28) || (Z.land b0 31 =? 29) then negb (Z.land b1 128 =? 0) else true
  | _ => false
  end.
