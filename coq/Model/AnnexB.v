(* emitNalus of codecs/h264_packet.go (shared by the H264 and H265 payloaders): split an Annex-B
   byte stream at 3- and 4-byte start codes.  [find_sc] is bytes.Index(l, {0,0,1}).
   Suffix style: [split] works on the bytes after a start code; skipping e+3 bytes lands after the
   next start code in both the 3-byte and the 4-byte case because the cut moves back by one when
   the byte before the next code is 0. *)
From Coq Require Import ZArith List Lia Bool.
Import ListNotations.
Open Scope Z_scope.

Definition is_sc (l : list Z) : bool :=
  match l with
  | a :: b :: c :: _ => (a =? 0) && (b =? 0) && (c =? 1)
  | _ => false
  end.

Fixpoint find_sc (l : list Z) : option nat :=
  match l with
  | [] => None
  | _ :: t => if is_sc l then Some O else option_map S (find_sc t)
  end.

Fixpoint split (fuel : nat) (l : list Z) : list (list Z) :=
  match fuel with
  | O => []
  | S f =>
    match find_sc l with
    | None => [l]
    | Some e =>
      let is4 := match e with O => false | S e' => nth e' l 1 =? 0 end in
      let cut := if is4 then pred e else e in
      firstn cut l :: split f (skipn (e + 3) l)
    end
  end.

(* the NAL units handed to the callback, in order (empty ones included: callers skip them) *)
Definition emit_nalus (nals : list Z) : list (list Z) :=
  match find_sc nals with
  | None => [nals]
  | Some s => split (S (length nals)) (skipn (s + 3) nals)
  end.
