(* packet.go: Packet.Clone / Header.Clone over an explicit heap.
   Gallina values cannot alias, so the property "the clone shares no memory with the original"
   needs the memory made explicit: a heap of blocks (backing arrays), Go slices as optional
   block references (None = nil slice), and a packet in memory as scalars plus slices.
   The element list Header.Extensions is itself a slice whose elements hold payload slices. *)
From Coq Require Import ZArith List Lia Bool.
From RTP Require Import Base.ListX Model.RtpPacket.
Import ListNotations.
Open Scope Z_scope.

Definition slice := option nat.                      (* nil, or the block holding the contents *)

Inductive cell : Type :=
| CBytes (l : list Z)                                (* []byte and []uint32 backing arrays *)
| CElems (l : list (Z * slice)).                     (* []Extension: id and payload slice *)

Definition heap := list cell.                        (* block b is the b-th cell; make() appends *)

Record mpacket : Type := mkMPacket {
  m_scal : header;          (* scalar fields; its csrc / extensions components are not used *)
  m_poff : Z;               (* Header.PayloadOffset *)
  m_csrc : slice;
  m_exts : slice;
  m_payload : slice;
  m_pad : Z
}.

(* what a reader of the packet sees: every slice resolved, nil-ness kept *)
Record view : Type := mkView {
  v_scal : header; v_poff : Z;
  v_csrc : option (list Z);
  v_exts : option (list (Z * option (list Z)));
  v_payload : option (list Z);
  v_pad : Z
}.

Definition rd_bytes (hp : heap) (s : slice) : option (option (list Z)) :=
  match s with
  | None => Some None
  | Some b => match nth_error hp b with Some (CBytes l) => Some (Some l) | _ => None end
  end.

Fixpoint rd_elems (hp : heap) (es : list (Z * slice)) : option (list (Z * option (list Z))) :=
  match es with
  | [] => Some []
  | (i, s) :: t =>
    match rd_bytes hp s, rd_elems hp t with
    | Some v, Some vt => Some ((i, v) :: vt)
    | _, _ => None
    end
  end.

Definition rd_exts (hp : heap) (s : slice) : option (option (list (Z * option (list Z)))) :=
  match s with
  | None => Some None
  | Some b => match nth_error hp b with
              | Some (CElems es) => match rd_elems hp es with Some v => Some (Some v) | None => None end
              | _ => None
              end
  end.

(* None = a dangling or ill-typed reference: not a Go state *)
Definition read (hp : heap) (p : mpacket) : option view :=
  match rd_bytes hp (m_csrc p), rd_exts hp (m_exts p), rd_bytes hp (m_payload p) with
  | Some c, Some e, Some pl => Some (mkView (m_scal p) (m_poff p) c e pl (m_pad p))
  | _, _, _ => None
  end.

(* the blocks a packet can reach *)
Definition slice_blocks (s : slice) : list nat := match s with None => [] | Some b => [b] end.
Definition elems_blocks (es : list (Z * slice)) : list nat := flat_map (fun e => slice_blocks (snd e)) es.
Definition exts_blocks (hp : heap) (s : slice) : list nat :=
  match s with
  | None => []
  | Some b => b :: match nth_error hp b with Some (CElems es) => elems_blocks es | _ => [] end
  end.
Definition reach (hp : heap) (p : mpacket) : list nat :=
  slice_blocks (m_csrc p) ++ exts_blocks hp (m_exts p) ++ slice_blocks (m_payload p).

(* make + copy *)
Definition cl_bytes (hp : heap) (s : slice) : option (heap * slice) :=
  match s with
  | None => Some (hp, None)
  | Some b => match nth_error hp b with
              | Some (CBytes l) => Some (hp ++ [CBytes l], Some (length hp))
              | _ => None
              end
  end.

Fixpoint cl_elems (hp : heap) (es : list (Z * slice)) : option (heap * list (Z * slice)) :=
  match es with
  | [] => Some (hp, [])
  | (i, s) :: t =>
    match cl_bytes hp s with
    | Some (hp1, s') =>
      match cl_elems hp1 t with
      | Some (hp2, t') => Some (hp2, (i, s') :: t')
      | None => None
      end
    | None => None
    end
  end.

Definition cl_exts (hp : heap) (s : slice) : option (heap * slice) :=
  match s with
  | None => Some (hp, None)
  | Some b => match nth_error hp b with
              | Some (CElems es) =>
                match cl_elems hp es with
                | Some (hp1, es') => Some (hp1 ++ [CElems es'], Some (length hp1))
                | None => None
                end
              | _ => None
              end
  end.

(* Packet.Clone: Header.Clone (struct copy, CSRC, Extensions with each payload), Payload, PaddingSize *)
Definition clone (hp : heap) (p : mpacket) : option (heap * mpacket) :=
  match cl_bytes hp (m_csrc p) with
  | Some (hp1, c) =>
    match cl_exts hp1 (m_exts p) with
    | Some (hp2, e) =>
      match cl_bytes hp2 (m_payload p) with
      | Some (hp3, pl) => Some (hp3, mkMPacket (m_scal p) (m_poff p) c e pl (m_pad p))
      | None => None
      end
    | None => None
    end
  | None => None
  end.

(* Anything either holder can do afterwards: stores into existing blocks and fresh allocations. *)
Inductive mut : Type := MWrite (b : nat) (c : cell) | MAlloc (c : cell).

Fixpoint hset (hp : heap) (b : nat) (c : cell) : heap :=
  match hp, b with
  | [], _ => []
  | _ :: t, O => c :: t
  | x :: t, S b' => x :: hset t b' c
  end.

Definition apply_mut (hp : heap) (m : mut) : heap :=
  match m with MWrite b c => hset hp b c | MAlloc c => hp ++ [c] end.

(* ---- tie to the value-level packet of Model/RtpPacket.v ---- *)

(* what Marshal, the accessors and the comparison of the correspondence check see *)
Definition view_packet (v : view) : packet :=
  let h := v_scal v in
  mkPacket (mkHeader (version h) (padding h) (extension h) (marker h) (payload_type h)
                     (sequence_number h) (timestamp h) (ssrc h)
                     (match v_csrc v with Some l => l | None => [] end)
                     (extension_profile h)
                     (match v_exts v with
                      | Some es => map (fun e => mkExt (fst e) (match snd e with Some l => l | None => [] end)) es
                      | None => []
                      end))
           (match v_payload v with Some l => l | None => [] end) (v_pad v).

(* lay a value-level packet out in memory the way a caller builds it: one unrelated block, then
   CSRC, each extension value, the element list, the payload *)
Definition lay_out (h : header) (pl : list Z) (ps : Z) : heap * mpacket :=
  let hp1 := [CBytes [0]; CBytes (csrc h)] in
  let '(hp2, es) := fold_left (fun acc e => (fst acc ++ [CBytes (epayload e)],
                                             snd acc ++ [(eid e, Some (length (fst acc)))]))
                              (extensions h) (hp1, []) in
  let hp3 := hp2 ++ [CElems es] in
  (hp3 ++ [CBytes pl], mkMPacket h 7 (Some 1%nat) (Some (length hp2)) (Some (length hp3)) ps).

(* 1 when every block of the slice was allocated at or after [lo] *)
Definition fresh_flag (lo : nat) (s : slice) : Z :=
  match s with None => 1 | Some b => if Nat.leb lo b then 1 else 0 end.
