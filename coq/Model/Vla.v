(* vlaextension.go: VLA.Marshal / VLA.Unmarshal (fixed tree: the slX_bm length is 1 or 2 bytes,
   the shared bitmask is used only when all streams agree, Unmarshal resets the receiver). *)
From Coq Require Import ZArith List Lia Bool.
From RTP Require Import Base.Bits Base.Res Base.ListX Base.Bytes Model.ExtCodecs Model.Leb128.
Import ListNotations.
Open Scope Z_scope.

Record slayer : Type := mkSLayer {
  sl_stream : Z; sl_spatial : Z; sl_bitrates : list Z; sl_width : Z; sl_height : Z; sl_framerate : Z }.

Record vla : Type := mkVla { v_rid : Z; v_count : Z; v_layers : list slayer; v_hasres : bool }.

(* ctx.sls / ctx.slMBs as association on (stream, spatial) *)
Definition find_layer (ls : list slayer) (s sp : Z) : option slayer :=
  find (fun l => (sl_stream l =? s) && (sl_spatial l =? sp)) ls.

Fixpoint preprocess (count : Z) (ls seen : list slayer) : option err :=
  match ls with
  | [] => None
  | l :: t =>
    if (sl_stream l <? 0) || (count <=? sl_stream l) then Some EVlaStreamID
    else if (sl_spatial l <? 0) || (4 <=? sl_spatial l) then Some EVlaSpatialID
    else if (zlen (sl_bitrates l) =? 0) || (4 <? zlen (sl_bitrates l)) then Some EVlaTemporal
    else match find_layer seen (sl_stream l) (sl_spatial l) with
         | Some _ => Some EVlaDuplicate
         | None => preprocess count t (seen ++ [l])
         end
  end.

Definition bitmask (ls : list slayer) (s : Z) : Z :=
  fold_left (fun m sp => match find_layer ls s sp with Some _ => Z.lor m (Z.shiftl 1 sp) | None => m end)
            [0; 1; 2; 3] 0.

Definition streams (count : Z) : list Z := map Z.of_nat (seq 0 (Z.to_nat count)).

Definition common_bm (bms : list Z) : Z :=
  match bms with
  | [] => 0
  | c :: t => if forallb (fun b => b =? c) t then c else 0
  end.

(* the active layers in (stream, spatial) order *)
Definition ordered_layers (count : Z) (ls : list slayer) : list slayer :=
  flat_map (fun s => flat_map (fun sp => match find_layer ls s sp with Some l => [l] | None => [] end) [0; 1; 2; 3])
           (streams count).

(* pack 2-bit values four per byte, first value in the top bits *)
Fixpoint pack_tl (vals : list Z) : list Z :=
  match vals with
  | [] => []
  | [a] => [u8 (Z.shiftl a 6)]
  | [a; b] => [Z.lor (u8 (Z.shiftl a 6)) (u8 (Z.shiftl b 4))]
  | [a; b; c] => [Z.lor (Z.lor (u8 (Z.shiftl a 6)) (u8 (Z.shiftl b 4))) (u8 (Z.shiftl c 2))]
  | a :: b :: c :: d :: t =>
    Z.lor (Z.lor (Z.lor (u8 (Z.shiftl a 6)) (u8 (Z.shiftl b 4))) (u8 (Z.shiftl c 2))) (u8 d) :: pack_tl t
  end.

Fixpoint pack_nibbles (bms : list Z) : list Z :=
  match bms with
  | [] => []
  | [a] => [u8 (Z.shiftl a 4)]
  | a :: b :: t => Z.lor (u8 (Z.shiftl a 4)) b :: pack_nibbles t
  end.

Definition vla_marshal (v : vla) : res (list Z) :=
  if (v_count v <=? 0) || (4 <? v_count v) then Err EVlaStreamCount
  else if (v_rid v <? 0) || (v_count v <=? v_rid v) then Err EVlaStreamID
  else match preprocess (v_count v) (v_layers v) [] with
  | Some e => Err e
  | None =>
    let count := v_count v in
    let bms := map (bitmask (v_layers v)) (streams count) in
    let common := common_bm bms in
    let ol := ordered_layers count (v_layers v) in
    let nl := zlen (v_layers v) in
    let bitrates := flat_map (fun l => flat_map (fun k => write_leb128 k) (sl_bitrates l)) ol in
    let required := (if negb (common =? 0) then 1 else 2 + Z.quot (count - 1) 2)
                    + (Z.quot (nl - 1) 4 + 1) + zlen bitrates + (if v_hasres v then nl * 5 else 0) in
    let b0 := Z.lor (Z.lor (u8 (Z.shiftl (v_rid v) 6)) (u8 (Z.shiftl (u8 (count - 1)) 4))) common in
    let slbytes := if common =? 0 then pack_nibbles bms else [] in
    let tls := pack_tl (map (fun l => u8 (zlen (sl_bitrates l) - 1)) ol) in
    let tlbytes := match tls with [] => [0] | _ => tls end in
    let resbytes := if v_hasres v
                    then flat_map (fun l => put16 (u16 (sl_width l - 1)) ++ put16 (u16 (sl_height l - 1)) ++ [u8 (sl_framerate l)])
                                  (v_layers v)
                    else [] in
    let content := b0 :: slbytes ++ tlbytes ++ bitrates ++ resbytes in
    if required <? zlen content then Panic
    else Ok (content ++ repeat 0 (Z.to_nat (required - zlen content)))
  end.

(* ---- Unmarshal ---- *)
Definition nibbles (count : Z) (l : list Z) : list Z :=   (* bitmask of stream s from the slX_bm bytes *)
  map (fun s => match nth_error l (Z.to_nat (Z.quot s 2)) with
                | Some b => if s mod 2 =? 0 then Z.land (Z.shiftr b 4) 15 else Z.land b 15
                | None => 0
                end) (streams count).

(* the (stream, spatial) slots that are active, in order *)
Definition active_slots (count : Z) (bms : list Z) : list (Z * Z) :=
  flat_map (fun '(s, bm) => flat_map (fun sp => if Z.land bm (Z.shiftl 1 sp) =? 0 then [] else [(s, sp)]) [0; 1; 2; 3])
           (combine (streams count) bms).

(* a failing Unmarshal step reports the offset it had reached *)
Inductive vres (A : Type) : Type := VOk (a : A) | VErr (off : Z) (e : err) | VPanic.
Arguments VOk {A}. Arguments VErr {A}. Arguments VPanic {A}.

(* temporal layer counts: slot i reads 2 bits of byte i/4 *)
Fixpoint read_tls (slots : list (Z * Z)) (idx : Z) (l : list Z) (off : Z) (acc : list slayer)
  : vres (list slayer * list Z * Z) :=
  match slots with
  | [] => VOk (rev acc, l, off)
  | (s, sp) :: t =>
    (* if idx >= 4 { idx = 0; offset++; need one more byte } *)
    let '(idx, l, off, short) :=
      if 4 <=? idx then (0, tl l, off + 1, match tl l with [] => true | _ => false end) else (idx, l, off, false) in
    if short then VErr off EVlaShort else
    match l with
    | [] => VPanic
    | b :: _ =>
      let tlc := Z.land (Z.shiftr b (2 * (3 - idx))) 3 + 1 in
      read_tls t (idx + 1) l off (mkSLayer s sp (repeat 0 (Z.to_nat tlc)) 0 0 0 :: acc)
    end
  end.

Fixpoint read_rates (k : nat) (l : list Z) (off : Z) : vres (list Z * list Z * Z) :=
  match k with
  | O => VOk ([], l, off)
  | S k' =>
    match read_leb128 l with
    | None => VErr off ELeb128
    | Some (v, n) =>
      match read_rates k' (drop n l) (off + n) with
      | VOk (vs, l', off') => VOk (i64 v :: vs, l', off')
      | VErr o e => VErr o e
      | VPanic => VPanic
      end
    end
  end.

Fixpoint read_all_rates (ls : list slayer) (l : list Z) (off : Z) : vres (list slayer * list Z * Z) :=
  match ls with
  | [] => VOk ([], l, off)
  | x :: t =>
    match read_rates (length (sl_bitrates x)) l off with
    | VOk (vs, l1, off1) =>
      match read_all_rates t l1 off1 with
      | VOk (xs, l2, off2) => VOk (mkSLayer (sl_stream x) (sl_spatial x) vs 0 0 0 :: xs, l2, off2)
      | VErr o e => VErr o e
      | VPanic => VPanic
      end
    | VErr o e => VErr o e
    | VPanic => VPanic
    end
  end.

Fixpoint read_res (ls : list slayer) (l : list Z) : list slayer :=
  match ls, l with
  | x :: t, w0 :: w1 :: h0 :: h1 :: f :: l' =>
    mkSLayer (sl_stream x) (sl_spatial x) (sl_bitrates x) (be16 w0 w1 + 1) (be16 h0 h1 + 1) f :: read_res t l'
  | _, _ => []
  end.

(* VLA.Unmarshal returns (n, err); the decoded value is the receiver afterwards *)
Definition vla_unmarshal (prev : vla) (payload : list Z) : vres (vla * Z) :=
  match payload with
  | [] => VErr 0 EVlaShort
  | b0 :: l1 =>
    let rid := Z.land (Z.shiftr b0 6) 3 in
    let count := Z.land (Z.shiftr b0 4) 3 + 1 in
    let slbm := Z.land b0 15 in
    let hdr : vres (list Z * list Z * Z) :=
      if negb (slbm =? 0) then VOk (map (fun _ => slbm) (streams count), l1, 1)
      else
        let need := Z.quot (count - 1) 2 + 1 in
        if zlen l1 <? need then VErr 1 EVlaShort
        else VOk (nibbles count l1, drop need l1, 1 + need) in
    match hdr with
    | VErr o e => VErr o e
    | VPanic => VPanic
    | VOk (bms, l2, off2) =>
      match l2 with
      | [] => VErr off2 EVlaShort
      | _ =>
        match read_tls (active_slots count bms) 0 l2 off2 [] with
        | VErr o e => VErr o e
        | VPanic => VPanic
        | VOk (ls, l3, off3) =>
          match read_all_rates ls (tl l3) (off3 + 1) with
          | VErr o e => VErr o e
          | VPanic => VPanic
          | VOk (ls', l5, off5) =>
            match l5 with
            | [] => VOk (mkVla rid count ls' false, off5)
            | _ =>
              if zlen l5 <? zlen ls' * 5 then VErr off5 EVlaShort
              else VOk (mkVla rid count (read_res ls' l5) true, off5 + zlen ls' * 5)
            end
          end
        end
      end
    end
  end.
