(* codecs/h265_packet.go: H265Payloader.Payload, H265Packet.Unmarshal with its four payload
   structures, header accessors, IsPartitionHead.  Fixed tree: single-NALU fragments are copies,
   TSCI is built from phes[0..2] in the 32-bit layout its accessors read.  A unit that fails the
   conservative fits test but fits a single NAL unit packet is sent as one (repairs D12, the former
   KF-C14-lone-fu, and D28);
   the pinned behaviour KF-C14-donl-every-fu is modelled as it is. *)
From Coq Require Import ZArith List Lia Bool.
From RTP Require Import Base.Bits Base.Res Base.ListX Base.Bytes Base.Own Model.AnnexB.
Import ListNotations.
Open Scope Z_scope.

(* ---- H265NALUHeader accessors (uint16) ---- *)
Definition nh_f (h : Z) : bool := negb (Z.shiftr h 15 =? 0).
Definition nh_type (h : Z) : Z := u8 (Z.shiftr (Z.land h 32256) 9).          (* 0b01111110 << 8 *)
Definition nh_layer_id (h : Z) : Z := u8 (Z.shiftr (Z.land h 504) 3).        (* (1<<8)|0b11111000 *)
Definition nh_tid (h : Z) : Z := u8 (Z.land h 7).
(* H265FragmentationUnitHeader (uint8) *)
Definition fu_s (b : Z) : bool := negb (Z.shiftr (Z.land b 128) 7 =? 0).
Definition fu_e (b : Z) : bool := negb (Z.shiftr (Z.land b 64) 6 =? 0).
Definition fu_type (b : Z) : Z := Z.land b 63.
(* PACI header fields (uint16) *)
Definition paci_a (f : Z) : bool := negb (Z.land f 32768 =? 0).
Definition paci_ctype (f : Z) : Z := u8 (Z.shiftr (Z.land f 32256) 9).
Definition paci_phssize (f : Z) : Z := u8 (Z.shiftr (Z.land f 496) 4).       (* (1<<8)|0b11110000 *)
Definition paci_f0 (f : Z) : bool := negb (Z.land f 8 =? 0).
Definition paci_f1 (f : Z) : bool := negb (Z.land f 4 =? 0).
Definition paci_f2 (f : Z) : bool := negb (Z.land f 2 =? 0).
Definition paci_y (f : Z) : bool := negb (Z.land f 1 =? 0).
(* H265TSCI (uint32) *)
Definition tsci_of (p0 p1 p2 : Z) : Z := Z.lor (Z.lor (Z.shiftl p0 24) (Z.shiftl p1 16)) (Z.shiftl p2 8).
Definition tsci_tl0picidx (t : Z) : Z := u8 (Z.shiftr (Z.land (Z.shiftr (Z.land t 4294901760) 16) 65280) 8).
Definition tsci_irap (t : Z) : Z := u8 (Z.land (Z.shiftr (Z.land t 4294901760) 16) 255).
Definition tsci_s (t : Z) : bool := negb (Z.land (u8 (Z.shiftr (Z.land t 65280) 8)) 128 =? 0).
Definition tsci_e (t : Z) : bool := negb (Z.land (u8 (Z.shiftr (Z.land t 65280) 8)) 64 =? 0).
Definition tsci_res (t : Z) : Z := Z.land (u8 (Z.shiftr (Z.land t 65280) 8)) 63.

(* ---- payloader ---- *)
Record h265pay : Type := mkH265Pay { h5_donl_on : bool; h5_skip_agg : bool; h5_donl : Z }.

Record h5buf : Type := mkH5Buf { hb_nalus : list (list Z); hb_size : Z }.

Definition hdr_of_nalu (n : list Z) : Z :=
  match n with a :: b :: _ => Z.lor (Z.shiftl a 8) b | _ => 0 end.

Definition min_list (f : list Z -> Z) (ns : list (list Z)) : Z :=
  fold_left (fun m n => if f n <? m then f n else m) ns 255.

(* flushBufferedNals *)
Definition h5_flush (st : h265pay) (b : h5buf) : res (h265pay * list bref) :=
  match hb_nalus b with
  | [] => Ok (st, [])
  | [nalu] =>
    if h5_donl_on st then
      match nalu with
      | a :: c :: body => Ok (mkH265Pay true (h5_skip_agg st) (u16 (h5_donl st + 1)),
                              [Own (a :: c :: put16 (h5_donl st) ++ body)])
      | _ => Panic
      end
    else Ok (st, [Own nalu])
  | nalus =>
    let layer := min_list (fun n => nh_layer_id (hdr_of_nalu n)) nalus in
    let tid := min_list (fun n => nh_tid (hdr_of_nalu n)) nalus in
    let hdr := put16 (u16 (Z.lor (Z.lor (Z.shiftl 48 9) (Z.shiftl layer 3)) tid)) in
    let unit (i : nat) (n : list Z) : list Z :=
      (if h5_donl_on st then (match i with O => put16 (h5_donl st) | S j => [u8 (Z.of_nat j)] end) else [])
      ++ put16 (u16 (zlen n)) ++ n in
    let content := hdr ++ concat (map (fun '(i, n) => unit i n) (combine (seq 0 (length nalus)) nalus)) in
    if hb_size b <? zlen content then Panic
    else Ok (st, [Own (content ++ repeat 0 (Z.to_nat (hb_size b - zlen content)))])
  end.

Definition h5_marginal (st : h265pay) (b : h5buf) (nalu : list Z) : Z :=
  let m := if zlen (hb_nalus b) =? 1 then zlen nalu + 4 else zlen nalu + 2 in
  if h5_donl_on st then (if zlen (hb_nalus b) =? 0 then m + 2 else m + 1) else m.

(* fragmentation units of body (the NAL unit without its 2-byte header) *)
Fixpoint h5_fus (fuel : nat) (st : h265pay) (maxf : Z) (h0 h1 ty : Z) (total : Z) (rest : list Z)
  : res (h265pay * list bref) :=
  match fuel with
  | O => Panic
  | S f =>
    if zlen rest <=? 0 then Ok (st, []) else
    let cur := if maxf <? zlen rest then maxf else zlen rest in
    let b0 := Z.lor (Z.land h0 129) (u8 (Z.shiftl 49 1)) in
    let b2 := if zlen rest =? total then Z.lor ty 128 else if zlen rest - cur =? 0 then Z.lor ty 64 else ty in
    match slice rest 0 cur, slice rest cur (zlen rest) with
    | Some a, Some b =>
      let '(pkt, st1) :=
        if h5_donl_on st
        then (b0 :: h1 :: b2 :: put16 (h5_donl st) ++ a, mkH265Pay true (h5_skip_agg st) (u16 (h5_donl st + 1)))
        else (b0 :: h1 :: b2 :: a, st) in
      match h5_fus f st1 maxf h0 h1 ty total b with
      | Ok (st2, fs) => Ok (st2, Own pkt :: fs)
      | e => e
      end
    | _, _ => Panic
    end
  end.

(* the callback of emitNalus; state = payloader state + aggregation buffer *)
Definition h5_nalu (mtu : Z) (st : h265pay) (b : h5buf) (nalu : list Z) : res (h265pay * h5buf * list bref) :=
  if zlen nalu <? 2 then Ok (st, b, []) else
  let nalu_len := zlen nalu + 2 + (if h5_donl_on st then 2 else 0) in
  if nalu_len <=? mtu then
    let m := h5_marginal st b nalu in
    match (if mtu <? hb_size b + m then h5_flush st b else Ok (st, [])) with
    | Ok (st1, out1) =>
      let b1 := if mtu <? hb_size b + m then mkH5Buf [] 0 else b in
      let m1 := h5_marginal st1 b1 nalu in
      let b2 := mkH5Buf (hb_nalus b1 ++ [nalu]) (hb_size b1 + m1) in
      if h5_skip_agg st1 then
        match h5_flush st1 b2 with
        | Ok (st2, out2) => Ok (st2, mkH5Buf [] 0, out1 ++ out2)
        | Err e => Err e
        | Panic => Panic
        end
      else Ok (st1, b2, out1)
    | Err e => Err e
    | Panic => Panic
    end
  else
    let fu_hdr := 3 + (if h5_donl_on st then 2 else 0) in
    let maxf := mtu - fu_hdr in
    match nalu with
    | h0 :: h1 :: body =>
      if zlen body =? 0 then Ok (st, b, [])
      else if zlen body <=? maxf + 1 then
        (* the unit fits a single NAL unit packet, which has no FU header byte: it goes out as one
           (flushBufferedNals(); bufferedNALUs = [nalu]; flushBufferedNals()) *)
        match h5_flush st b with
        | Ok (st1, out1) =>
          match h5_flush st1 (mkH5Buf [nalu] 0) with
          | Ok (st2, out2) => Ok (st2, mkH5Buf [] 0, out1 ++ out2)
          | Err e => Err e
          | Panic => Panic
          end
        | Err e => Err e
        | Panic => Panic
        end
      else if maxf <=? 0 then Ok (st, b, [])
      else
        match h5_flush st b with
        | Ok (st1, out1) =>
          match h5_fus (S (length body)) st1 maxf h0 h1 (nh_type (Z.lor (Z.shiftl h0 8) h1)) (zlen body) body with
          | Ok (st2, out2) => Ok (st2, mkH5Buf [] 0, out1 ++ out2)
          | Err e => Err e
          | Panic => Panic
          end
        | Err e => Err e
        | Panic => Panic
        end
    | _ => Panic
    end.

Fixpoint h5_nalus (mtu : Z) (st : h265pay) (b : h5buf) (nalus : list (list Z)) : res (h265pay * h5buf * list bref) :=
  match nalus with
  | [] => Ok (st, b, [])
  | n :: t =>
    match h5_nalu mtu st b n with
    | Ok (st1, b1, o1) =>
      match h5_nalus mtu st1 b1 t with
      | Ok (st2, b2, o2) => Ok (st2, b2, o1 ++ o2)
      | e => e
      end
    | e => e
    end
  end.

Definition h265_payload (st : h265pay) (mtu : Z) (payload : option (list Z)) : res (h265pay * list bref) :=
  match payload with
  | None | Some [] => Ok (st, [])
  | Some p =>
    if mtu =? 0 then Ok (st, []) else
    match h5_nalus mtu st (mkH5Buf [] 0) (emit_nalus p) with
    | Ok (st1, b1, o1) =>
      match h5_flush st1 b1 with
      | Ok (st2, o2) => Ok (st2, o1 ++ o2)
      | Err e => Err e
      | Panic => Panic
      end
    | Err e => Err e
    | Panic => Panic
    end
  end.

(* ---- H265Packet ---- *)
Inductive h5packet : Type :=
| PSingle (hdr : Z) (donl : option Z) (payload : list Z)
| PAgg (first_donl : option Z) (first : list Z) (others : list (option Z * list Z))
| PFu (hdr : Z) (fuh : Z) (donl : option Z) (payload : list Z)
| PPaci (hdr : Z) (fields : Z) (phes : list Z) (payload : list Z).

Fixpoint agg_others (fuel : nat) (donl : bool) (l : list Z) (acc : list (option Z * list Z)) : list (option Z * list Z) :=
  match fuel with
  | O => rev acc
  | S f =>
    let '(dond, l1, stop) :=
      if donl then match l with [] => (None, l, true) | d :: t => (Some d, t, false) end
      else (None, l, false) in
    if stop then rev acc else
    match l1 with
    | a :: b :: l2 =>
      let size := be16 a b in
      if zlen l2 <? size then rev acc
      else agg_others f donl (drop size l2) ((dond, take size l2) :: acc)
    | _ => rev acc
    end
  end.

(* the loop over the further aggregation units refuses a unit that is cut short (D34): every byte
   behind the first unit belongs to a complete [DOND] size unit triple.  (The Go loop does both at
   once; the units it collects are agg_others of the same bytes.) *)
Fixpoint agg_clean (fuel : nat) (donl : bool) (l : list Z) : bool :=
  match fuel with
  | O => false
  | S f =>
    match l with
    | [] => true
    | _ :: t =>
      match (if donl then t else l) with
      | a :: b :: l2 =>
        let size := be16 a b in
        if zlen l2 <? size then false else agg_clean f donl (drop size l2)
      | _ => false
      end
    end
  end.

Definition h265_unmarshal (donl : bool) (payload : option (list Z)) : res h5packet :=
  match payload with
  | None => Err ENil
  | Some p =>
    if zlen p <=? 2 then Err EShort else
    match p with
    | p0 :: p1 :: rest =>
      let hdr := Z.lor (Z.shiftl p0 8) p1 in
      if nh_f hdr then Err ECorrupt else
      let ty := nh_type hdr in
      if ty =? 50 then
        if zlen p <=? 4 then Err EShort else
        match rest with
        | f0 :: f1 :: r2 =>
          let fields := Z.lor (Z.shiftl f0 8) f1 in
          let phs := paci_phssize fields in
          if zlen r2 <? phs + 1 then Err EShort
          else Ok (PPaci hdr fields (if 0 <? phs then take phs r2 else []) (drop phs r2))
        | _ => Panic
        end
      else if ty =? 49 then
        if zlen p <=? 3 then Err EShort else
        match rest with
        | fuh :: r1 =>
          if fu_s fuh && donl then
            if zlen r1 <=? 2 then Err EShort else
            match r1 with
            | d0 :: d1 :: r2 => Ok (PFu hdr fuh (Some (Z.lor (Z.shiftl d0 8) d1)) r2)
            | _ => Panic
            end
          else Ok (PFu hdr fuh None r1)
        | _ => Panic
        end
      else if ty =? 48 then
        let after_donl (fd : option Z) (r : list Z) :=
          match r with
          | a :: b :: r2 =>
            let size := Z.lor (Z.shiftl a 8) b in
            if zlen r2 <? size then Err EShort else
            if negb (agg_clean (S (length r2)) donl (drop size r2)) then Err EShort else
            let others := agg_others (S (length r2)) donl (drop size r2) [] in
            match others with
            | [] => Err EShort
            | _ => Ok (PAgg fd (take size r2) others)
            end
          | _ => Err EShort
          end in
        if donl then
          match rest with
          | d0 :: d1 :: r1 => after_donl (Some (Z.lor (Z.shiftl d0 8) d1)) r1
          | _ => Err EShort
          end
        else after_donl None rest
      else
        if donl then
          if zlen rest <=? 2 then Err EShort else
          match rest with
          | d0 :: d1 :: r1 => Ok (PSingle hdr (Some (Z.lor (Z.shiftl d0 8) d1)) r1)
          | _ => Panic
          end
        else Ok (PSingle hdr None rest)
    | _ => Panic
    end
  end.

Definition h265_is_partition_head (payload : option (list Z)) : bool :=
  match payload with
  | Some (p0 :: p1 :: p2 :: _) =>
    if nh_type (be16 p0 p1) =? 49 then fu_s p2 else true
  | _ => false
  end.

(* PACI: the TSCI extension *)
Definition paci_tsci (fields : Z) (phes : list Z) : res (option Z) :=
  if negb (paci_f0 fields) || (paci_phssize fields <? 3) then Ok None
  else match phes with
       | a :: b :: c :: _ => Ok (Some (tsci_of a b c))
       | _ => Panic
       end.
