(* codecs/g711_packet.go, codecs/g722_packet.go (identical code), codecs/opus_packet.go,
   and the audio mixin of codecs/common.go. *)
From Coq Require Import ZArith List Lia Bool.
From RTP Require Import Base.Res Base.ListX Base.Own.
Import ListNotations.
Open Scope Z_scope.
Open Scope res_scope.

(* for len(payload) > int(mtu) { o := make([]byte, mtu); copy(o, payload[:mtu]);
                                 payload = payload[mtu:]; out = append(out, o) }
   o := make([]byte, len(payload)); copy(o, payload); return append(out, o) *)
Fixpoint g711_loop (fuel : nat) (mtu : Z) (p : list Z) (out : list bref) : res (list bref) :=
  match fuel with
  | O => Panic
  | S f =>
    if mtu <? zlen p then
      match slice p 0 mtu, slice p mtu (zlen p) with
      | Some o, Some rest => g711_loop f mtu rest (out ++ [Own o])
      | _, _ => Panic
      end
    else Ok (out ++ [Own p])
  end.

(* payload == nil || mtu == 0  =>  nil *)
Definition g711_payload (mtu : Z) (payload : option (list Z)) : res (list bref) :=
  match payload with
  | None => Ok []
  | Some p => if mtu =? 0 then Ok [] else g711_loop (S (length p)) mtu p []
  end.

Definition g722_payload := g711_payload.

(* OpusPayloader.Payload ignores the MTU *)
Definition opus_payload (mtu : Z) (payload : option (list Z)) : res (list bref) :=
  match payload with
  | None => Ok []
  | Some p => Ok [Own p]
  end.

(* OpusPacket.Unmarshal: returns the packet itself (a view of the whole input, buffer 0) *)
Definition opus_unmarshal (packet : option (list Z)) : res bref :=
  match packet with
  | None => Err ENil
  | Some p => if zlen p =? 0 then Err EShort else Ok (View 0 0 (zlen p))
  end.

Definition audio_is_partition_head (payload : option (list Z)) : bool := true.
Definition audio_is_partition_tail (marker : bool) (payload : option (list Z)) : bool := true.
