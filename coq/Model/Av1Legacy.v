(* codecs/av1_packet.go: the deprecated AV1Packet.Unmarshal / parseBody (fixed tree: the element
   index is compared with W as an int and only when W is set, not as a wrapping byte), and
   codecs/av1/frame/av1.go: AV1.ReadFrames. *)
From Coq Require Import ZArith List Lia Bool.
From RTP Require Import Base.Bits Base.Res Base.ListX Model.Leb128.
Import ListNotations.
Open Scope Z_scope.

Record av1pkt : Type := mkAv1Pkt { ap_z : bool; ap_y : bool; ap_w : Z; ap_n : bool; ap_elems : option (list (list Z)) }.

Fixpoint av1p_body (fuel : nat) (w : Z) (l : list Z) (i : Z) (acc : list (list Z)) : res (list (list Z)) :=
  match fuel with
  | O => Panic
  | S f =>
    match l with
    | [] => Ok (rev acc)
    | _ =>
      if negb (w =? 0) && (i =? w) then Ok (rev (l :: acc))     (* W set and this is element W: the rest of the packet *)
      else
        match read_leb128 l with
        | None => Err ELeb128
        | Some (len, n) =>
          let l1 := drop n l in
          if zlen l1 <? len then Err EShort
          else av1p_body f w (drop len l1) (i + 1) (take len l1 :: acc)
        end
    end
  end.

(* receiver fields are assigned before the Z&&N check; elements already present are kept *)
Definition av1p_unmarshal (prev : av1pkt) (payload : option (list Z)) : av1pkt * res (list Z) :=
  match payload with
  | None => (prev, Err ENil)
  | Some p =>
    match p with
    | [] | [_] => (prev, Err EShort)
    | b0 :: rest =>
      let z := negb (Z.shiftr (Z.land b0 128) 7 =? 0) in
      let y := negb (Z.shiftr (Z.land b0 64) 6 =? 0) in
      let n := negb (Z.shiftr (Z.land b0 8) 3 =? 0) in
      let w := Z.shiftr (Z.land b0 48) 4 in
      let st := mkAv1Pkt z y w n (ap_elems prev) in
      if z && n then (st, Err EKeyFragment) else
      match ap_elems prev with
      | Some es => (st, Ok rest)
      | None =>
        match av1p_body (S (length rest)) w rest 1 [] with
        | Ok es => (mkAv1Pkt z y w n (Some es), Ok rest)
        | Err e => (st, Err e)
        | Panic => (st, Panic)
        end
      end
    end
  end.

(* frame.AV1: obuBuffer is nil or a byte string *)
Definition read_frames (buffer : option (list Z)) (pkt : av1pkt) : option (list Z) * list (list Z) :=
  let elems := match ap_elems pkt with Some es => es | None => [] end in
  (* pushOBUElement over the elements; only the first one can be a continuation *)
  let '(buffer1, obus) :=
    match elems with
    | [] => (buffer, [])
    | e :: t =>
      if ap_z pkt then
        match buffer with
        | None => (None, t)                       (* nothing to combine the continuation with *)
        | Some b => (None, (b ++ e) :: t)
        end
      else (buffer, elems)
    end in
  if ap_y pkt then
    match rev obus with
    | [] => (buffer1, obus)
    | lastv :: initr =>
      (* append(f.obuBuffer, copy...): appending nothing to a nil slice leaves it nil *)
      (match buffer1, lastv with
       | None, [] => None
       | _, _ => Some ((match buffer1 with Some b => b | None => [] end) ++ lastv)
       end, rev initr)
    end
  else (buffer1, obus).
