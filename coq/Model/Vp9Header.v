(* codecs/vp9/bits.go and codecs/vp9/header.go: the bit reader and the uncompressed-header parser. *)
From Coq Require Import ZArith List Lia Bool.
From RTP Require Import Base.Bits Base.Res Base.ListX.
Import ListNotations.
Open Scope Z_scope.

Definition has_space (buf : list Z) (pos n : Z) : bool := n <=? zlen buf * 8 - pos.

Definition byte_at (buf : list Z) (pos : Z) : res Z :=
  match idx buf (Z.shiftr pos 3) with Some b => Ok b | None => Panic end.

(* whole bytes of phase two of readBitsUnsafe *)
Fixpoint read_whole (fuel : nat) (buf : list Z) (pos n bits : Z) : res (Z * Z * Z) :=
  match fuel with
  | O => Panic
  | S f =>
    if 8 <=? n then
      match byte_at buf pos with
      | Ok b => read_whole f buf (pos + 8) (n - 8) (u64 (Z.lor (Z.shiftl bits 8) b))
      | Err e => Err e | Panic => Panic
      end
    else Ok (pos, n, bits)
  end.

(* readBitsUnsafe: returns (value, new pos) *)
Definition read_bits_unsafe (buf : list Z) (pos n : Z) : res (Z * Z) :=
  let r := 8 - Z.land pos 7 in
  match byte_at buf pos with
  | Ok b0 =>
    if n <? r then Ok (Z.land (Z.shiftr b0 (r - n)) (u8 (u8 (Z.shiftl 1 n) - 1)), pos + n)
    else
      let bits := Z.land b0 (u8 (u8 (Z.shiftl 1 r) - 1)) in
      match read_whole 9 buf (pos + r) (n - r) bits with
      | Ok (pos2, n2, bits2) =>
        if 0 <? n2 then
          match byte_at buf pos2 with
          | Ok b => Ok (u64 (Z.lor (Z.shiftl bits2 n2) (Z.shiftr b (8 - n2))), pos2 + n2)
          | Err e => Err e | Panic => Panic
          end
        else Ok (bits2, pos2)
      | Err e => Err e | Panic => Panic
      end
  | Err e => Err e | Panic => Panic
  end.

Definition read_flag_unsafe (buf : list Z) (pos : Z) : res (bool * Z) :=
  match byte_at buf pos with
  | Ok b => Ok (Z.land (Z.shiftr b (7 - Z.land pos 7)) 1 =? 1, pos + 1)
  | Err e => Err e | Panic => Panic
  end.

Definition read_flag (buf : list Z) (pos : Z) : res (bool * Z) :=
  if has_space buf pos 1 then read_flag_unsafe buf pos else Err EShort.

Definition read_bits (buf : list Z) (pos n : Z) : res (Z * Z) :=
  if has_space buf pos n then read_bits_unsafe buf pos n else Err EShort.

Record vp9hdr : Type := mkVp9Hdr {
  vh_profile : Z; vh_show_existing : bool; vh_frame_to_show : Z; vh_non_key : bool;
  vh_show_frame : bool; vh_error_res : bool;
  vh_color : option (Z * Z * bool * bool * bool);   (* bit depth, colour space, range, subsampling x, y *)
  vh_size : option (Z * Z)                           (* width-1, height-1 *)
}.

Open Scope res_scope.

(* HeaderColorConfig.unmarshal *)
Definition color_config (profile : Z) (buf : list Z) (pos : Z) : res ((Z * Z * bool * bool * bool) * Z) :=
  ' (depth, pos1) <- (if 2 <=? profile
                      then ' (t, p) <- read_flag buf pos ;; Ok ((if t : bool then 12 else 10), p)
                      else Ok (8, pos)) ;;
  ' (cs, pos2) <- read_bits buf pos1 3 ;;
  let cs := u8 cs in
  if negb (cs =? 7) then
    ' (range, pos3) <- read_flag buf pos2 ;;
    if (profile =? 1) || (profile =? 3) then
      if has_space buf pos3 3 then
        ' (sx, pos4) <- read_flag_unsafe buf pos3 ;;
        ' (sy, pos5) <- read_flag_unsafe buf pos4 ;;
        Ok ((depth, cs, range, sx, sy), pos5 + 1)
      else Err EShort
    else Ok ((depth, cs, range, true, true), pos3)
  else
    if (profile =? 1) || (profile =? 3) then
      if has_space buf pos2 1 then Ok ((depth, cs, true, false, false), pos2 + 1) else Err EShort
    else Ok ((depth, cs, true, false, false), pos2).

(* the key-frame part: sync code, colour config, frame size *)
Definition key_frame_part (profile : Z) (buf : list Z) (p8 : Z) (show_frame err_res : bool) : res vp9hdr :=
  if negb (has_space buf p8 24) then Err EShort else
  ' (s0, p9) <- read_bits_unsafe buf p8 8 ;;
  if negb (u8 s0 =? 73) then Err EInvalidType else
  ' (s1, p10) <- read_bits_unsafe buf p9 8 ;;
  if negb (u8 s1 =? 131) then Err EInvalidType else
  ' (s2, p11) <- read_bits_unsafe buf p10 8 ;;
  if negb (u8 s2 =? 66) then Err EInvalidType else
  ' (cc, p12) <- color_config profile buf p11 ;;
  if negb (has_space buf p12 32) then Err EShort else
  ' (w, p13) <- read_bits_unsafe buf p12 16 ;;
  ' (h, p14) <- read_bits_unsafe buf p13 16 ;;
  Ok (mkVp9Hdr profile false 0 false show_frame err_res (Some cc) (Some (u16 w, u16 h))).

(* Header.Unmarshal; error kinds are collapsed (all unexported) *)
Definition vp9_header_unmarshal (buf : list Z) : res vp9hdr :=
  if negb (has_space buf 0 4) then Err EShort else
  ' (marker, p1) <- read_bits_unsafe buf 0 2 ;;
  if negb (marker =? 2) then Err EInvalidType else
  ' (lo, p2) <- read_bits_unsafe buf p1 1 ;;
  ' (hi, p3) <- read_bits_unsafe buf p2 1 ;;
  let profile := u8 (u8 (Z.shiftl (u8 hi) 1) + u8 lo) in
  p4 <- (if profile =? 3 then (if has_space buf p3 1 then Ok (p3 + 1) else Err EShort) else Ok p3) ;;
  ' (show_existing, p5) <- read_flag buf p4 ;;
  if show_existing : bool then
    ' (idxv, p6) <- read_bits buf p5 3 ;;
    Ok (mkVp9Hdr profile true (u8 idxv) false false false None None)
  else
    if negb (has_space buf p5 3) then Err EShort else
    ' (non_key, p6) <- read_flag_unsafe buf p5 ;;
    ' (show_frame, p7) <- read_flag_unsafe buf p6 ;;
    ' (err_res, p8) <- read_flag_unsafe buf p7 ;;
    if negb non_key then key_frame_part profile buf p8 show_frame err_res
    else Ok (mkVp9Hdr profile false 0 true show_frame err_res None None).

Definition vp9_width (h : vp9hdr) : Z := match vh_size h with Some (w, _) => u16 (w + 1) | None => 0 end.
Definition vp9_height (h : vp9hdr) : Z := match vh_size h with Some (_, hh) => u16 (hh + 1) | None => 0 end.
