(* sequencer.go.  NextSequenceNumber and RollOverCount run under one mutex: each is one atomic
   step of this state machine.  That the mutex really provides atomicity is the Go runtime's
   business and is what the concurrent harness samples under the race detector. *)
From Coq Require Import ZArith List Lia Bool.
From RTP Require Import Base.Bits.
Import ListNotations.
Open Scope Z_scope.

Record seqr : Type := mkSeqr { sq : Z; roc : Z }.

(* s.sequenceNumber++ (uint16); if s.sequenceNumber == 0 { s.rollOverCount++ (uint64) } *)
Definition seq_next (s : seqr) : seqr * Z :=
  let v := u16 (sq s + 1) in
  (mkSeqr v (if v =? 0 then u64 (roc s + 1) else roc s), v).

Definition seq_roc (s : seqr) : Z := roc s.

(* NewFixedSequencer(s): sequenceNumber = s - 1 (uint16) *)
Definition new_fixed (s : Z) : seqr := mkSeqr (u16 (s - 1)) 0.

(* NewRandomSequencer(): sequenceNumber = uint16(Intn(1<<15 - 1)) *)
Definition max_initial_random : Z := 32767.
Definition new_random (draw : Z) : seqr := mkSeqr (u16 draw) 0.

Inductive sop := SNext | SRoc.

Definition seq_step (s : seqr) (o : sop) : seqr * Z :=
  match o with
  | SNext => seq_next s
  | SRoc => (s, seq_roc s)
  end.

Fixpoint seq_run (s : seqr) (ops : list sop) : seqr * list Z :=
  match ops with
  | [] => (s, [])
  | o :: t => let '(s1, r) := seq_step s o in let '(s2, rs) := seq_run s1 t in (s2, r :: rs)
  end.

(* The sequencer is shared: a Packetizer draws one number per packet of a frame and per padding
   packet (packetizer.go calls NextSequenceNumber in its loops) from the same counter that other
   callers use directly.  A history with such batches: *)
Inductive bop := BOne (o : sop) | BTake (n : nat).

Fixpoint seq_take (n : nat) (s : seqr) : seqr * list Z :=
  match n with
  | O => (s, [])
  | S k => let '(s1, v) := seq_next s in let '(s2, vs) := seq_take k s1 in (s2, v :: vs)
  end.

Fixpoint seq_brun (s : seqr) (l : list bop) : seqr * list (list Z) :=
  match l with
  | [] => (s, [])
  | BOne o :: t => let '(s1, r) := seq_step s o in let '(s2, rs) := seq_brun s1 t in (s2, [r] :: rs)
  | BTake n :: t => let '(s1, vs) := seq_take n s in let '(s2, rs) := seq_brun s1 t in (s2, vs :: rs)
  end.

Definition flatten_bops (l : list bop) : list sop :=
  flat_map (fun b => match b with BOne o => [o] | BTake n => repeat SNext n end) l.
