(* header_extension.go: the standalone OneByteHeaderExtension / TwoByteHeaderExtension /
   RawExtension views - the read side (Unmarshal, GetIDs, Get, Marshal, MarshalTo, MarshalSize).
   The views keep the whole buffer handed to Unmarshal, 4-byte profile/length header included.
   A Go slice expression is bounded by the capacity, not the length: the views slice their buffer without
   a length check of their own, so on a TRUNCATED block that sits in a larger array they read on into the
   spare capacity where this model says Panic.  The model takes cap = len (what the harness hands over, and
   all that matters for a well-formed block, whose elements lie inside its length). *)
From Coq Require Import ZArith List Lia Bool.
From RTP Require Import Base.Bits Base.Res Base.ListX Base.Bytes Model.RtpPacket.
Import ListNotations.
Open Scope Z_scope.

Definition view_profile (buf : list Z) : res Z :=
  match buf with a :: b :: _ => Ok (be16 a b) | _ => Panic end.       (* buf[0:2] *)

Definition onebyte_unmarshal (buf : list Z) : res (list Z) :=
  match view_profile buf with
  | Ok p => if p =? profile_one_byte then Ok buf else Err ENotFound
  | Err e => Err e | Panic => Panic
  end.
Definition twobyte_unmarshal (buf : list Z) : res (list Z) :=
  match view_profile buf with
  | Ok p => if ext_form p =? profile_two_byte then Ok buf else Err ENotFound
  | Err e => Err e | Panic => Panic
  end.
Definition raw_unmarshal (buf : list Z) : res (list Z) :=
  match view_profile buf with
  | Ok p => if (p =? profile_one_byte) || (ext_form p =? profile_two_byte) then Err ENotFound else Ok buf
  | Err e => Err e | Panic => Panic
  end.

(* walks start at offset 4 *)
Fixpoint onebyte_ids (fuel : nat) (l : list Z) (acc : list Z) : res (list Z) :=
  match fuel with
  | O => Panic
  | S f =>
    match l with
    | [] => Ok (rev acc)
    | b :: t =>
      if b =? 0 then onebyte_ids f t acc else
      let id := Z.shiftr b 4 in
      let len := u8 (Z.land b 15 + 1) in
      if id =? 15 then Ok (rev acc) else onebyte_ids f (drop len t) (id :: acc)
    end
  end.

Definition onebyte_get_ids (payload : list Z) : res (list Z) :=
  if zlen payload <? 4 then Panic else onebyte_ids (S (length payload)) (drop 4 payload) [].

Fixpoint onebyte_find (fuel : nat) (id : Z) (l : list Z) : res (option (list Z)) :=
  match fuel with
  | O => Panic
  | S f =>
    match l with
    | [] => Ok None
    | b :: t =>
      if b =? 0 then onebyte_find f id t else
      let len := u8 (Z.land b 15 + 1) in
      if Z.shiftr b 4 =? 15 then Ok None       (* the reserved id ends the walk, as in GetIDs *)
      else if Z.shiftr b 4 =? id then (if zlen t <? len then Panic else Ok (Some (take len t)))
      else onebyte_find f id (drop len t)
    end
  end.
Definition onebyte_get (payload : list Z) (id : Z) : res (option (list Z)) :=
  onebyte_find (S (length payload)) id (drop 4 payload).

Fixpoint twobyte_ids (fuel : nat) (l : list Z) (acc : list Z) : res (list Z) :=
  match fuel with
  | O => Panic
  | S f =>
    match l with
    | [] => Ok (rev acc)
    | b :: t =>
      if b =? 0 then twobyte_ids f t acc else
      match t with
      | [] => Panic                          (* payload[n] past the end *)
      | len :: t2 => twobyte_ids f (drop len t2) (b :: acc)
      end
    end
  end.
Definition twobyte_get_ids (payload : list Z) : res (list Z) :=
  if zlen payload <? 4 then Panic else twobyte_ids (S (length payload)) (drop 4 payload) [].

Fixpoint twobyte_find (fuel : nat) (id : Z) (l : list Z) : res (option (list Z)) :=
  match fuel with
  | O => Panic
  | S f =>
    match l with
    | [] => Ok None
    | b :: t =>
      if b =? 0 then twobyte_find f id t else
      match t with
      | [] => Panic
      | len :: t2 =>
        if b =? id then (if zlen t2 <? len then Panic else Ok (Some (take len t2)))
        else twobyte_find f id (drop len t2)
      end
    end
  end.
Definition twobyte_get (payload : list Z) (id : Z) : res (option (list Z)) :=
  twobyte_find (S (length payload)) id (drop 4 payload).

Definition raw_get_ids (payload : list Z) : list Z := [0].
Definition raw_get (payload : list Z) (id : Z) : option (list Z) := if id =? 0 then Some payload else None.

(* Marshal returns the payload; MarshalTo copies it when it fits *)
Definition view_marshal_to (payload dst : list Z) : res (list Z * Z) :=
  if zlen dst <? zlen payload then Err EShortBuffer
  else Ok (payload ++ drop (zlen payload) dst, zlen payload).
