(* packet.go: Header / Packet marshal, unmarshal, extension accessors.
   The model follows the code statement by statement.  Parsing is written in suffix style:
   the state is the unread suffix buf[n:] together with n; a test `len(buf) < n+k` of the
   code is `zlen suffix < k` here. *)
From Coq Require Import ZArith List Lia Bool.
From RTP Require Import Base.Bits Base.Res Base.ListX Base.Bytes.
Import ListNotations.
Open Scope Z_scope.
Open Scope res_scope.

Record ext : Type := mkExt { eid : Z; epayload : list Z }.

Record header : Type := mkHeader {
  version : Z;
  padding : bool;
  extension : bool;
  marker : bool;
  payload_type : Z;
  sequence_number : Z;
  timestamp : Z;
  ssrc : Z;
  csrc : list Z;
  extension_profile : Z;
  extensions : list ext
}.

Record packet : Type := mkPacket {
  hdr : header;
  payload : list Z;
  padding_size : Z
}.

Definition empty_header : header :=
  mkHeader 0 false false false 0 0 0 0 [] 0 [].
Definition empty_packet : packet := mkPacket empty_header [] 0.

Definition profile_one_byte : Z := 48862.  (* 0xBEDE *)
Definition profile_two_byte : Z := 4096.   (* 0x1000 *)

(* extensionForm: the RFC 8285 two-byte form is announced by 0x100 followed by four application bits,
   which a receiver ignores - all sixteen profiles 0x1000..0x100F mean the two-byte form (D31) *)
Definition ext_form (profile : Z) : Z :=
  if Z.land profile 65520 =? profile_two_byte then profile_two_byte else profile.

(* ------------------------------------------------------------------ *)
(* Header.Unmarshal                                                    *)

(* for i := range h.CSRC { h.CSRC[i] = BigEndian.Uint32(buf[12+4i:]) } on the suffix buf[12:] *)
Fixpoint read_csrcs (k : nat) (l : list Z) : res (list Z * list Z) :=
  match k with
  | O => Ok ([], l)
  | S k' =>
    match l with
    | a :: b :: c :: d :: l' =>
      ' (cs, rest) <- read_csrcs k' l' ;; Ok (be32 a b c d :: cs, rest)
    | _ => Panic
    end
  end.

(* The element loop of the one-byte / two-byte profiles.
     l        = buf[n:]
     n        = absolute offset (only used to report element offsets and the final n)
     ext_end  = extensionEnd
   Returns the elements in order, their absolute offsets, the final n and buf[n:]. *)
Fixpoint parse_exts (fuel : nat) (two_byte : bool) (l : list Z) (n ext_end : Z)
         (acc : list ext) (offs : list Z) : res (list ext * list Z * Z * list Z) :=
  match fuel with
  | O => Panic
  | S f =>
    if ext_end <=? n then Ok (rev acc, rev offs, n, l) else
    match l with
    | [] => Panic                                      (* buf[n] *)
    | b :: l1 =>
      if b =? 0 then parse_exts f two_byte l1 (n + 1) ext_end acc offs   (* padding *)
      else if two_byte then
        match l1 with
        | [] => Err EShort                             (* len(buf) <= n *)
        | len :: l2 =>
          if ext_end <? n + 2 + len then Err EShort    (* extensionEnd < n + payloadLen: the element overruns its block *)
          else if zlen l2 <? len then Panic            (* buf[n:n+payloadLen]; inside buf because the block is *)
          else parse_exts f two_byte (drop len l2) (n + 2 + len) ext_end
                          (mkExt b (take len l2) :: acc) (n + 2 :: offs)
        end
      else
        let id := Z.shiftr b 4 in
        let len := u8 (Z.land b 15 + 1) in             (* int(buf[n]&^0xF0 + 1) *)
        if id =? 15 then Ok (rev acc, rev offs, n + 1, l1)   (* reserved id: break *)
        else if ext_end <? n + 1 + len then Err EShort
        else if zlen l1 <? len then Panic
        else parse_exts f two_byte (drop len l1) (n + 1 + len) ext_end
                        (mkExt id (take len l1) :: acc) (n + 1 :: offs)
    end
  end.

(* result of Header.Unmarshal: the new receiver value, n, the absolute offsets of the
   extension values inside buf, and the unread suffix buf[n:] *)
Record hdr_result : Type := mkHdrResult {
  hr_header : header; hr_n : Z; hr_offsets : list Z; hr_rest : list Z }.

Definition header_unmarshal_into (prev : header) (buf : list Z) : res hdr_result :=
  match buf with
  | b0 :: b1 :: s0 :: s1 :: l4 =>
    let version := Z.land (Z.shiftr b0 6) 3 in
    let padding := 0 <? Z.land (Z.shiftr b0 5) 1 in
    let extension := 0 <? Z.land (Z.shiftr b0 4) 1 in
    let ncsrc := Z.land b0 15 in
    let n := 12 + ncsrc * 4 in
    if zlen buf <? n then Err EShort else
    let marker := 0 <? Z.land (Z.shiftr b1 7) 1 in
    let pt := Z.land b1 127 in
    match l4 with
    | t0 :: t1 :: t2 :: t3 :: r0 :: r1 :: r2 :: r3 :: l12 =>
      ' (cs, lc) <- read_csrcs (Z.to_nat ncsrc) l12 ;;
      let mk := fun profile exts =>
        mkHeader version padding extension marker pt (be16 s0 s1) (be32 t0 t1 t2 t3)
                 (be32 r0 r1 r2 r3) cs profile exts in
      if extension then
        match lc with
        | p0 :: p1 :: e0 :: e1 :: le =>
          let profile := be16 p0 p1 in
          let ext_len := be16 e0 e1 * 4 in
          let n4 := n + 4 in
          let ext_end := n4 + ext_len in
          if zlen le <? ext_len then Err EShort else
          if (profile =? profile_one_byte) || (ext_form profile =? profile_two_byte) then
            ' (exts, offs, nf, rest) <-
               parse_exts (S (length le)) (ext_form profile =? profile_two_byte) le n4 ext_end [] [] ;;
            Ok (mkHdrResult (mk profile exts) nf offs rest)
          else
            Ok (mkHdrResult (mk profile [mkExt 0 (take ext_len le)]) ext_end [n4] (drop ext_len le))
        | _ => Err EShort                              (* len(buf) < n + 4 *)
        end
      else
        (* h.Extensions = h.Extensions[:0]; h.ExtensionProfile = 0 (repair D26: it used to keep the
           previous receiver's value) *)
        Ok (mkHdrResult (mk 0 []) n [] lc)
    | _ => Panic   (* unreachable: len(buf) >= 12 was checked *)
    end
  | _ => Err EShort                                    (* len(buf) < headerLength *)
  end.

(* Packet.Unmarshal *)
Record pkt_result : Type := mkPktResult { pr_packet : packet; pr_n : Z; pr_offsets : list Z }.

Definition packet_unmarshal_into (prev : packet) (buf : list Z) : res pkt_result :=
  ' hr <- header_unmarshal_into (hdr prev) buf ;;
  let n := hr_n hr in
  let rest := hr_rest hr in            (* buf[n:] *)
  let end_ := zlen buf in
  if padding (hr_header hr) then
    if end_ <=? n then Err EShort else
    let ps := last rest 0 in            (* buf[end-1] *)
    let end2 := end_ - ps in
    if end2 <? n then Err EShort
    else Ok (mkPktResult (mkPacket (hr_header hr) (take (end2 - n) rest) ps) n (hr_offsets hr))
  else
    if end_ <? n then Err EShort
    else Ok (mkPktResult (mkPacket (hr_header hr) rest 0) n (hr_offsets hr)).

(* ------------------------------------------------------------------ *)
(* Header.MarshalSize / MarshalTo / Marshal                            *)

Definition ext_block_size (h : header) : Z :=
  if extension_profile h =? profile_one_byte then
    fold_left (fun s e => s + 1 + zlen (epayload e)) (extensions h) 4
  else if ext_form (extension_profile h) =? profile_two_byte then
    fold_left (fun s e => s + 2 + zlen (epayload e)) (extensions h) 4
  else
    match extensions h with
    | [] => 4
    | e :: _ => 4 + zlen (epayload e)
    end.

Definition header_marshal_size (h : header) : Z :=
  let size := 12 + zlen (csrc h) * 4 in
  if extension h then size + ((ext_block_size h + 3) / 4) * 4 else size.

(* the element bytes written after the 4-byte extension header; Err for the legacy profile
   whose value is not a whole number of words *)
Definition ext_body (h : header) : res (list Z) :=
  if extension_profile h =? profile_one_byte then
    Ok (flat_map (fun e => Z.lor (u8 (Z.shiftl (eid e) 4)) (u8 (u8 (zlen (epayload e)) - 1)) :: epayload e)
                 (extensions h))
  else if ext_form (extension_profile h) =? profile_two_byte then
    Ok (flat_map (fun e => eid e :: u8 (zlen (epayload e)) :: epayload e) (extensions h))
  else
    match extensions h with
    | [] => Ok []
    | e :: _ => if zlen (epayload e) mod 4 =? 0 then Ok (epayload e) else Err EShortBuffer
    end.

(* all bytes MarshalTo writes, in order *)
Definition header_bytes (h : header) : res (list Z) :=
  let b0 := Z.lor (u8 (Z.shiftl (version h) 6)) (u8 (zlen (csrc h))) in
  let b0 := if padding h then Z.lor b0 32 else b0 in
  let b0 := if extension h then Z.lor b0 16 else b0 in
  let b1 := if marker h then Z.lor (payload_type h) 128 else payload_type h in
  let fixed := b0 :: b1 :: put16 (sequence_number h) ++ put32 (timestamp h) ++ put32 (ssrc h)
               ++ flat_map put32 (csrc h) in
  if extension h then
    ' body <- ext_body h ;;
    let ext_size := zlen body in
    let rounded := ((ext_size + 3) / 4) * 4 in
    Ok (fixed ++ put16 (extension_profile h) ++ put16 (u16 (rounded / 4)) ++ body
              ++ repeat 0 (Z.to_nat (rounded - ext_size)))
  else Ok fixed.

(* writes into dst; unwritten bytes keep their value *)
Definition overwrite (dst : list Z) (off : Z) (bs : list Z) : list Z :=
  take off dst ++ bs ++ drop (off + zlen bs) dst.

Definition header_marshal_to (h : header) (dst : list Z) : res (list Z * Z) :=
  let size := header_marshal_size h in
  if zlen dst <? size then Err EShortBuffer else
  ' bs <- header_bytes h ;;
  if zlen dst <? zlen bs then Panic           (* would index past the buffer; excluded by the size check *)
  else Ok (overwrite dst 0 bs, zlen bs).

Definition header_marshal (h : header) : res (list Z) :=
  let size := header_marshal_size h in
  ' (buf, n) <- header_marshal_to h (repeat 0 (Z.to_nat size)) ;;
  Ok (take n buf).

Definition packet_marshal_size (p : packet) : Z :=
  header_marshal_size (hdr p) + zlen (payload p) + padding_size p.

Definition packet_marshal_to (p : packet) (dst : list Z) : res (list Z * Z) :=
  if padding (hdr p) && (padding_size p =? 0) then Err EInvalidPadding else
  ' (d1, n) <- header_marshal_to (hdr p) dst ;;
  if zlen dst <? n + zlen (payload p) + padding_size p then Err EShortBuffer else
  let d2 := overwrite d1 n (payload p) in
  let m := zlen (payload p) in
  let d3 := if padding (hdr p)
            then overwrite d2 (n + m) (repeat 0 (Z.to_nat (padding_size p - 1)) ++ [padding_size p])
            else d2 in
  Ok (d3, n + m + padding_size p).

Definition packet_marshal (p : packet) : res (list Z) :=
  let size := packet_marshal_size p in
  ' (buf, n) <- packet_marshal_to p (repeat 0 (Z.to_nat size)) ;;
  Ok (take n buf).

(* ------------------------------------------------------------------ *)
(* extension accessors                                                 *)

Fixpoint set_existing (id : Z) (v : list Z) (es : list ext) : option (list ext) :=
  match es with
  | [] => None
  | e :: t => if eid e =? id then Some (mkExt id v :: t)
              else match set_existing id v t with Some t' => Some (e :: t') | None => None end
  end.

Definition with_exts (h : header) (x : bool) (profile : Z) (es : list ext) : header :=
  mkHeader (version h) (padding h) x (marker h) (payload_type h) (sequence_number h)
           (timestamp h) (ssrc h) (csrc h) profile es.

(* extensionsSizeWith: the bytes of the extension elements if the first element with the id (a new
   element if there is none) had a value of vlen bytes; a legacy block is its one value *)
Definition elem_hdr_len (profile : Z) : Z :=
  if profile =? profile_one_byte then 1 else if ext_form profile =? profile_two_byte then 2 else 0.
Fixpoint exts_size (k : Z) (es : list ext) : Z :=
  match es with [] => 0 | e :: t => k + zlen (epayload e) + exts_size k t end.
Fixpoint exts_size_skip_first (k id : Z) (es : list ext) : Z :=
  match es with
  | [] => 0
  | e :: t => if eid e =? id then exts_size k t else k + zlen (epayload e) + exts_size_skip_first k id t
  end.
Definition exts_size_with (profile id vlen : Z) (es : list ext) : Z :=
  let k := elem_hdr_len profile in
  if k =? 0 then vlen else k + vlen + exts_size_skip_first k id es.

(* returns the new header, or the error with the header unchanged *)
Definition set_extension (h : header) (id : Z) (v : list Z) : header * option err :=
  if extension h then
    let bad :=
      if extension_profile h =? profile_one_byte then
        if (id <? 1) || (14 <? id) then Some EIdRange
        else if (zlen v =? 0) || (16 <? zlen v) then Some ESize else None
      else if ext_form (extension_profile h) =? profile_two_byte then
        if id <? 1 then Some EIdRange
        else if 255 <? zlen v then Some ESize else None
      else
        if negb (id =? 0) then Some EIdRange
        else if 262140 <? zlen v then Some ESize   (* 65535 words: what the 16-bit length field can count (D32) *)
        else None in
    match bad with
    | Some e => (h, Some e)
    | None =>
      (* the elements must fit 65535 words, what the 16-bit length field can count (D36) *)
      if 262140 <? exts_size_with (extension_profile h) id (zlen v) (extensions h) then (h, Some ESize)
      else
      match set_existing id v (extensions h) with
      | Some es => (with_exts h true (extension_profile h) es, None)
      | None => (with_exts h true (extension_profile h) (extensions h ++ [mkExt id v]), None)
      end
    end
  else
    let len := zlen v in
    if (1 <=? len) && (len <=? 16) && (1 <=? id) && (id <=? 14) then
      (with_exts h true profile_one_byte (extensions h ++ [mkExt id v]), None)
    else if (len <? 256) && (1 <=? id) then
      (with_exts h true profile_two_byte (extensions h ++ [mkExt id v]), None)
    else if id <? 1 then (h, Some EIdRange)
    else (h, Some ESize).

Definition get_extension_ids (h : header) : option (list Z) :=
  if negb (extension h) then None
  else match extensions h with [] => None | es => Some (map eid es) end.

Definition get_extension (h : header) (id : Z) : option (list Z) :=
  if negb (extension h) then None
  else match find (fun e => eid e =? id) (extensions h) with
       | Some e => Some (epayload e)
       | None => None
       end.

(* DelExtension: from the first element with the id on, no element with that id stays (a header that
   came off the wire can name an id more than once; D33) *)
Fixpoint del_first (id : Z) (es : list ext) : option (list ext) :=
  match es with
  | [] => None
  | e :: t => if eid e =? id then Some (filter (fun x => negb (eid x =? id)) t)
              else match del_first id t with Some t' => Some (e :: t') | None => None end
  end.

Definition del_extension (h : header) (id : Z) : header * option err :=
  if negb (extension h) then (h, Some ENotEnabled)
  else match del_first id (extensions h) with
       | Some es => (with_exts h true (extension_profile h) es, None)
       | None => (h, Some ENotFound)
       end.
