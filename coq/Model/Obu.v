(* codecs/av1/obu/obu.go: ParseOBUHeader, Header.Marshal / Size, ExtensionHeader. *)
From Coq Require Import ZArith List Lia Bool.
From RTP Require Import Base.Bits Base.Res Base.ListX.
Import ListNotations.
Open Scope Z_scope.

Record obuhdr : Type := mkObuHdr {
  otype : Z; oext : option (Z * Z * Z) (* temporal id, spatial id, reserved 3 bits *);
  ohas_size : bool; ores1 : bool }.

(* None = ErrShortHeader / ErrInvalidOBUHeader *)
Definition parse_obu_header (d : list Z) : option obuhdr :=
  match d with
  | [] => None
  | b0 :: t =>
    if negb (Z.land b0 128 =? 0) then None else
    let ty := Z.shiftr (Z.land b0 120) 3 in
    let extf := negb (Z.land b0 4 =? 0) in
    let hs := negb (Z.land b0 2 =? 0) in
    let r1 := negb (Z.land b0 1 =? 0) in
    if extf then
      match t with
      | [] => None
      | b1 :: _ => Some (mkObuHdr ty (Some (Z.shiftr b1 5, Z.land (Z.shiftr b1 3) 3, Z.land b1 7)) hs r1)
      end
    else Some (mkObuHdr ty None hs r1)
  end.

Definition obu_hdr_size (h : obuhdr) : Z := match oext h with Some _ => 2 | None => 1 end.

Definition obu_hdr_marshal (h : obuhdr) : list Z :=
  let b0 := u8 (Z.shiftl (Z.land (otype h) 15) 3) in
  let b0 := match oext h with Some _ => Z.lor b0 4 | None => b0 end in
  let b0 := if ohas_size h then Z.lor b0 2 else b0 in
  let b0 := if ores1 h then Z.lor b0 1 else b0 in
  match oext h with
  | Some (t, s, r) => [b0; Z.lor (Z.lor (u8 (Z.shiftl t 5)) (u8 (Z.shiftl (Z.land s 3) 3))) (Z.land r 7)]
  | None => [b0]
  end.
