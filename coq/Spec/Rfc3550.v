(* RTP wire images written from RFC 3550 section 5.1 / 5.3.1 and RFC 8285, independent of
   the library's encoder.  Arithmetic only (no masks or shifts). *)
From Coq Require Import ZArith List Lia Bool.
From RTP Require Import Base.Bits Base.ListX Model.RtpPacket Spec.Rfc8285.
Import ListNotations.
Open Scope Z_scope.

Inductive ext_block : Type :=
| XNone
| XOne (items : list item)
| XTwo (appbits : Z) (items : list item)   (* RFC 8285 4.3: 0x100 followed by four application bits *)
| XLegacy (profile : Z) (body : list Z).

Record wire : Type := mkWire {
  w_version : Z; w_marker : bool; w_pt : Z; w_seq : Z; w_ts : Z; w_ssrc : Z;
  w_csrc : list Z;
  w_ext : ext_block;
  w_payload : list Z;
  w_padfill : list Z;     (* the padding octets before the count octet (content is free) *)
  w_pad : bool            (* P bit; count = length padfill + 1 *)
}.

Definition enc_u16 (v : Z) : list Z := [v / 256; v mod 256].
Definition enc_u32 (v : Z) : list Z := [v / 16777216; (v / 65536) mod 256; (v / 256) mod 256; v mod 256].

Definition block_body (b : ext_block) : list Z :=
  match b with
  | XNone => []
  | XOne items => enc_items false items
  | XTwo _ items => enc_items true items
  | XLegacy _ body => body
  end.

Definition block_profile (b : ext_block) : Z :=
  match b with
  | XNone => 0
  | XOne _ => 48862
  | XTwo appbits _ => 4096 + appbits
  | XLegacy p _ => p
  end.

Definition enc_block (b : ext_block) : list Z :=
  match b with
  | XNone => []
  | _ => enc_u16 (block_profile b) ++ enc_u16 (zlen (block_body b) / 4) ++ block_body b
  end.

Definition has_ext (b : ext_block) : bool := match b with XNone => false | _ => true end.

Definition enc_header (w : wire) : list Z :=
  [w_version w * 64 + (if w_pad w then 32 else 0) + (if has_ext (w_ext w) then 16 else 0) + zlen (w_csrc w);
   (if w_marker w then 128 else 0) + w_pt w]
  ++ enc_u16 (w_seq w) ++ enc_u32 (w_ts w) ++ enc_u32 (w_ssrc w)
  ++ concat (map enc_u32 (w_csrc w))
  ++ enc_block (w_ext w).

Definition enc_trailer (w : wire) : list Z :=
  if w_pad w then w_padfill w ++ [zlen (w_padfill w) + 1] else [].

Definition encode (w : wire) : list Z := enc_header w ++ w_payload w ++ enc_trailer w.

Definition wf_block (b : ext_block) : Prop :=
  match b with
  | XNone => True
  | XOne items => Forall wf_item1 items
  | XTwo appbits items => 0 <= appbits < 16 /\ Forall wf_item2 items
  | XLegacy p _ => 0 <= p < 65536 /\ p <> 48862 /\ ~ (4096 <= p < 4112)
  end
  /\ zlen (block_body b) mod 4 = 0 /\ zlen (block_body b) / 4 < 65536.

Definition wf_wire (w : wire) : Prop :=
  0 <= w_version w < 4 /\ 0 <= w_pt w < 128 /\ 0 <= w_seq w < 65536 /\
  0 <= w_ts w < 4294967296 /\ 0 <= w_ssrc w < 4294967296 /\
  zlen (w_csrc w) <= 15 /\ Forall (fun c => 0 <= c < 4294967296) (w_csrc w) /\
  wf_block (w_ext w) /\
  (w_pad w = true -> zlen (w_padfill w) + 1 <= 255) /\
  (w_pad w = false -> w_padfill w = []).

(* what the wire means *)
Definition block_elems (b : ext_block) : list ext :=
  match b with
  | XNone => []
  | XOne items | XTwo _ items => elems items
  | XLegacy _ body => [mkExt 0 body]
  end.

Definition meaning (prev_profile : Z) (w : wire) : packet :=
  mkPacket
    (mkHeader (w_version w) (w_pad w) (has_ext (w_ext w)) (w_marker w) (w_pt w) (w_seq w) (w_ts w)
              (w_ssrc w) (w_csrc w)
              (if has_ext (w_ext w) then block_profile (w_ext w) else prev_profile)
              (block_elems (w_ext w)))
    (w_payload w)
    (if w_pad w then zlen (w_padfill w) + 1 else 0).
