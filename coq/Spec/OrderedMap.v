(* The abstract data type the extension accessors are meant to implement: a map from ids to
   values that remembers first-insertion order. *)
From Coq Require Import ZArith List Lia Bool.
Import ListNotations.
Open Scope Z_scope.

Definition amap := list (Z * list Z).

Fixpoint am_set (id : Z) (v : list Z) (m : amap) : amap :=
  match m with
  | [] => [(id, v)]
  | (k, x) :: t => if k =? id then (id, v) :: t else (k, x) :: am_set id v t
  end.

Fixpoint am_del (id : Z) (m : amap) : option amap :=
  match m with
  | [] => None
  | (k, x) :: t => if k =? id then Some (filter (fun p => negb (fst p =? id)) t)   (* every entry of the key goes *)
                   else match am_del id t with Some t' => Some ((k, x) :: t') | None => None end
  end.

Fixpoint am_get (id : Z) (m : amap) : option (list Z) :=
  match m with
  | [] => None
  | (k, x) :: t => if k =? id then Some x else am_get id t
  end.

Definition am_ids (m : amap) : list Z := map fst m.

(* the laws that make this an ordered map *)
Lemma am_get_set_same id v m : am_get id (am_set id v m) = Some v.
Proof.
  induction m as [|[k x] t IH]; cbn [am_set am_get]; [rewrite Z.eqb_refl; reflexivity|].
  destruct (k =? id) eqn:E; cbn [am_get]; [rewrite Z.eqb_refl; reflexivity|rewrite E; exact IH].
Qed.

Lemma am_get_set_other id id' v m : id' <> id -> am_get id' (am_set id v m) = am_get id' m.
Proof.
  intros Hne. induction m as [|[k x] t IH]; cbn [am_set am_get].
  - destruct (id =? id') eqn:E; [lia|reflexivity].
  - destruct (k =? id) eqn:E; cbn [am_get].
    + destruct (id =? id') eqn:E2; [lia|]. destruct (k =? id') eqn:E3; [lia|reflexivity].
    + destruct (k =? id'); [reflexivity|exact IH].
Qed.

Lemma am_ids_set id v m :
  am_ids (am_set id v m) = if existsb (fun k => k =? id) (am_ids m) then am_ids m else am_ids m ++ [id].
Proof.
  induction m as [|[k x] t IH]; cbn [am_set am_ids map existsb fst]; [reflexivity|].
  destruct (k =? id) eqn:E; cbn [map fst orb].
  - f_equal. lia.
  - fold (am_ids (am_set id v t)). rewrite IH. fold (am_ids t).
    destruct (existsb (fun k0 => k0 =? id) (am_ids t)); reflexivity.
Qed.

Lemma am_get_notin id m : ~ In id (am_ids m) -> am_get id m = None.
Proof.
  induction m as [|[k x] t IH]; intros H; [reflexivity|]. cbn [am_get am_ids map fst] in *.
  destruct (k =? id) eqn:E.
  - exfalso. apply H. left. lia.
  - apply IH. intros Hin. apply H. right. exact Hin.
Qed.

Lemma am_get_filter_same id m : am_get id (filter (fun p => negb (fst p =? id)) m) = None.
Proof.
  induction m as [|[k x] t IH]; [reflexivity|]. cbn [filter fst].
  destruct (k =? id) eqn:E; cbn [negb]; [exact IH|]. cbn [am_get]. rewrite E. exact IH.
Qed.

Lemma am_get_filter_other id id' m : id' <> id ->
  am_get id' (filter (fun p => negb (fst p =? id)) m) = am_get id' m.
Proof.
  intros Hne. induction m as [|[k x] t IH]; [reflexivity|]. cbn [filter fst am_get].
  destruct (k =? id) eqn:E; cbn [negb am_get].
  - destruct (k =? id') eqn:E2; [lia|exact IH].
  - destruct (k =? id'); [reflexivity|exact IH].
Qed.

Lemma am_ids_filter id m :
  am_ids (filter (fun p => negb (fst p =? id)) m) = filter (fun k => negb (k =? id)) (am_ids m).
Proof.
  induction m as [|[k x] t IH]; [reflexivity|]. cbn [filter am_ids map fst].
  destruct (k =? id); cbn [negb map fst]; [exact IH|]. f_equal. exact IH.
Qed.

Lemma am_del_ids_incl id m m' : am_del id m = Some m' -> incl (am_ids m') (am_ids m).
Proof.
  revert m'. induction m as [|[k x] t IH]; intros m' H; cbn [am_del] in H; [discriminate|].
  destruct (k =? id).
  - injection H as <-. intros a Ha. right. rewrite am_ids_filter in Ha. apply filter_In in Ha as [Ha _]. exact Ha.
  - destruct (am_del id t) as [t'|]; [|discriminate]. injection H as <-.
    intros a Ha. cbn [am_ids map fst] in *. destruct Ha as [->|Ha]; [left; reflexivity|right; apply (IH t' eq_refl a Ha)].
Qed.

Lemma am_del_some id m m' : am_del id m = Some m' ->
  am_get id m <> None /\ (NoDup (am_ids m) -> am_get id m' = None /\ NoDup (am_ids m')) /\
  (forall id', id' <> id -> am_get id' m' = am_get id' m).
Proof.
  revert m'. induction m as [|[k x] t IH]; intros m' H; cbn [am_del] in H; [discriminate|].
  cbn [am_get]. destruct (k =? id) eqn:E.
  - injection H as <-. split; [discriminate|]. split.
    + intros Hnd. cbn [am_ids map fst] in Hnd. apply NoDup_cons_iff in Hnd as [Hnin Hnd].
      split; [apply am_get_filter_same|]. rewrite am_ids_filter. apply NoDup_filter. exact Hnd.
    + intros id' Hne. destruct (k =? id') eqn:E2; [lia|]. apply am_get_filter_other. exact Hne.
  - destruct (am_del id t) as [t'|] eqn:Ed; [|discriminate]. injection H as <-.
    destruct (IH t' eq_refl) as (H1 & H2 & H3). split; [exact H1|]. split.
    + intros Hnd. cbn [am_ids map fst] in Hnd. apply NoDup_cons_iff in Hnd as [Hnin Hnd].
      destruct (H2 Hnd) as [Hg Hnd']. cbn [am_get]. rewrite E. split; [exact Hg|].
      cbn [am_ids map fst]. apply NoDup_cons; [|exact Hnd'].
      intros Hin. apply Hnin. exact (am_del_ids_incl id t t' Ed k Hin).
    + intros id' Hne. cbn [am_get]. destruct (k =? id'); [reflexivity|apply H3; exact Hne].
Qed.

(* "deleted ids absent", whether or not the map held the key more than once *)
Lemma am_del_absent id m m' : am_del id m = Some m' -> am_get id m' = None /\ ~ In id (am_ids m').
Proof.
  revert m'. induction m as [|[k x] t IH]; intros m' H; cbn [am_del] in H; [discriminate|].
  destruct (k =? id) eqn:E.
  - injection H as <-. split; [apply am_get_filter_same|]. rewrite am_ids_filter. intros Hin.
    apply filter_In in Hin as [_ Hin]. rewrite Z.eqb_refl in Hin. discriminate.
  - destruct (am_del id t) as [t'|]; [|discriminate]. injection H as <-.
    destruct (IH t' eq_refl) as [Hg Hn]. cbn [am_get am_ids map fst]. rewrite E. split; [exact Hg|].
    intros [Hk|Hin]; [lia|exact (Hn Hin)].
Qed.

Lemma am_del_none id m : am_del id m = None <-> am_get id m = None.
Proof.
  induction m as [|[k x] t IH]; cbn [am_del am_get]; [tauto|].
  destruct (k =? id); [split; discriminate|].
  destruct (am_del id t); split; intros H; try discriminate; try (apply IH in H; discriminate); tauto.
Qed.
