(* RFC 7798 payload structures written from the RFC text: 4.4.1 single NAL unit packet, 4.4.2
   aggregation packet, 4.4.3 fragmentation unit, 4.4.4 PACI packet (with the 4.5 TSCI extension in
   its PHES), each with and without the decoding-order fields (sprop-max-don-diff > 0).
   Independent of the library's payloader, which never emits PACI packets. *)
From Coq Require Import ZArith List Lia Bool.
From RTP Require Import Base.Bits Base.ListX Base.Bytes.
Import ListNotations.
Open Scope Z_scope.

(* payload header: F(1)=0 Type(6) LayerId(6) TID(3) *)
Definition phdr (ty layer tid : Z) : Z := ty * 512 + layer * 8 + tid.

Inductive form : Type :=
| FSingle (ty layer tid : Z) (donl : Z) (payload : list Z)
| FAgg (layer tid : Z) (donl : Z) (first : list Z) (others : list (Z * list Z))   (* (DOND, unit) *)
| FFu (layer tid : Z) (s e : bool) (futype : Z) (donl : Z) (payload : list Z)
| FPaci (layer tid : Z) (a : bool) (ctype phs : Z) (f0 f1 f2 y : bool) (phes payload : list Z).

Definition fu_header (s e : bool) (futype : Z) : Z :=
  (if s then 128 else 0) + (if e then 64 else 0) + futype.

Definition paci_word (a : bool) (ctype phs : Z) (f0 f1 f2 y : bool) : Z :=
  (if a then 32768 else 0) + ctype * 512 + phs * 16
  + (if f0 then 8 else 0) + (if f1 then 4 else 0) + (if f2 then 2 else 0) + (if y then 1 else 0).

Definition opt16 (with_donl : bool) (v : Z) : list Z := if with_donl then put16 v else [].

Definition agg_unit (with_donl : bool) (x : Z * list Z) : list Z :=
  (if with_donl then [fst x] else []) ++ put16 (zlen (snd x)) ++ snd x.

Definition encode (with_donl : bool) (f : form) : list Z :=
  match f with
  | FSingle ty layer tid donl payload =>
    put16 (phdr ty layer tid) ++ opt16 with_donl donl ++ payload
  | FAgg layer tid donl first others =>
    put16 (phdr 48 layer tid) ++ opt16 with_donl donl ++ put16 (zlen first) ++ first
    ++ concat (map (agg_unit with_donl) others)
  | FFu layer tid s e futype donl payload =>
    put16 (phdr 49 layer tid) ++ [fu_header s e futype] ++ opt16 (with_donl && s) donl ++ payload
  | FPaci layer tid a ctype phs f0 f1 f2 y phes payload =>
    put16 (phdr 50 layer tid) ++ put16 (paci_word a ctype phs f0 f1 f2 y) ++ phes ++ payload
  end.

Definition wf_form (f : form) : Prop :=
  match f with
  | FSingle ty layer tid donl payload =>
    0 <= ty < 48 /\ 0 <= layer < 64 /\ 0 <= tid < 8 /\ 0 <= donl < 65536 /\ payload <> []
  | FAgg layer tid donl first others =>
    0 <= layer < 64 /\ 0 <= tid < 8 /\ 0 <= donl < 65536 /\ zlen first < 65536 /\ others <> [] /\
    Forall (fun x => 0 <= fst x < 256 /\ zlen (snd x) < 65536) others
  | FFu layer tid s e futype donl payload =>
    0 <= layer < 64 /\ 0 <= tid < 8 /\ 0 <= futype < 64 /\ 0 <= donl < 65536 /\ payload <> []
  | FPaci layer tid a ctype phs f0 f1 f2 y phes payload =>
    0 <= layer < 64 /\ 0 <= tid < 8 /\ 0 <= ctype < 64 /\ 0 <= phs < 32 /\ zlen phes = phs /\ payload <> []
  end.
