(* RFC 6184 payload structures written from the RFC text (sections 5.6 single NAL unit packet,
   5.7.1 STAP-A, 5.8 FU-A), independent of the library's payloader: a sender may aggregate any
   number of units and may cut a fragmented unit anywhere, empty fragments included ("An FU payload
   MAY have any number of octets and MAY be empty"). *)
From Coq Require Import ZArith List Lia Bool.
From RTP Require Import Base.Bits Base.ListX Base.Bytes.
Import ListNotations.
Open Scope Z_scope.

Inductive item : Type :=
| ISingle (n : list Z)                         (* the packet is the NAL unit *)
| IStapA (nri : Z) (units : list (list Z))     (* 24|NRI, then (16-bit size, unit)* *)
| IFua (h : Z) (chunks : list (list Z)).       (* unit = h :: concat chunks, one FU-A per chunk *)

(* FU-A packets for the chunks: FU indicator = F|NRI of the unit | 28; FU header = S E R Type *)
Fixpoint fua_enc (ind ty : Z) (first : bool) (cs : list (list Z)) : list (list Z) :=
  match cs with
  | [] => []
  | [c] => [ind :: Z.lor ty 64 :: c]
  | c :: t => (ind :: (if first then Z.lor ty 128 else ty) :: c) :: fua_enc ind ty false t
  end.

Definition unit_enc (u : list Z) : list Z := put16 (zlen u) ++ u.

Definition item_enc (i : item) : list (list Z) :=
  match i with
  | ISingle n => [n]
  | IStapA nri us => [Z.lor 24 nri :: concat (map unit_enc us)]
  | IFua h cs => fua_enc (Z.lor 28 (Z.land h 224)) (Z.land h 31) true cs
  end.

Definition item_units (i : item) : list (list Z) :=
  match i with
  | ISingle n => [n]
  | IStapA _ us => us
  | IFua h cs => [h :: concat cs]
  end.

Definition rfc_stream (plan : list item) : list (list Z) := concat (map item_enc plan).
Definition rfc_units (plan : list item) : list (list Z) := concat (map item_units plan).

(* the F and NRI bits of a NAL unit header octet *)
Definition nri_ok (nri : Z) : Prop := nri = 0 \/ nri = 32 \/ nri = 64 \/ nri = 96 \/ nri = 128 \/ nri = 160 \/ nri = 192 \/ nri = 224.

(* well-formed items: unit types 1-23, aggregated units fit their 16-bit size field, a
   fragmented unit has at least two fragments (S and E never share a packet) *)
Definition wf_item (i : item) : Prop :=
  match i with
  | ISingle n => match n with b0 :: _ => 0 <= b0 < 256 /\ 1 <= Z.land b0 31 <= 23 | [] => False end
  | IStapA nri us => nri_ok nri /\ Forall (fun u => zlen u < 65536) us
  | IFua h cs => 0 <= h < 256 /\ 1 <= Z.land h 31 <= 23 /\ (2 <= length cs)%nat
  end.
