(* The AV1 side of the AV1 RTP payload format, written from the specification: OBUs of a temporal
   unit in the low-overhead bitstream format (what the payloader is given) and as OBU elements of
   RTP packets (what is transmitted), independent of the library. *)
From Coq Require Import ZArith List Lia Bool.
From RTP Require Import Base.Bits Base.ListX Model.Leb128 Model.Obu.
Import ListNotations.
Open Scope Z_scope.

(* an OBU of the caller's temporal unit *)
Record iobu : Type := mkIobu { io_type : Z; io_ext : option (Z * Z * Z); io_res1 : bool; io_body : list Z }.

Definition io_hdr (o : iobu) (sized : bool) : obuhdr := mkObuHdr (io_type o) (io_ext o) sized (io_res1 o).

(* low-overhead bitstream format: header, optional LEB128 size, payload *)
Definition io_bytes (sized : bool) (o : iobu) : list Z :=
  obu_hdr_marshal (io_hdr o sized) ++ (if sized then write_leb128 (zlen (io_body o)) else []) ++ io_body o.

(* as transmitted in RTP: size flag cleared, no size field *)
Definition io_elem (o : iobu) : list Z := obu_hdr_marshal (io_hdr o false) ++ io_body o.

(* temporal delimiters and tile lists are not transmitted *)
Definition transmitted (o : iobu) : bool := negb ((io_type o =? 2) || (io_type o =? 8)).


Definition stream (obus : list iobu) : list Z := concat (map (io_bytes true) obus).


(* the same with the size field omitted on the last OBU *)
Definition stream_u (init : list iobu) (lst : iobu) : list Z := stream init ++ io_bytes false lst.
