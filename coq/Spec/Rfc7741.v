(* RFC 7741 section 4.2: the VP8 payload descriptor, written from the figure, arithmetic only. *)
From Coq Require Import ZArith List Lia Bool.
From RTP Require Import Base.ListX Model.Vp8.
Import ListNotations.
Open Scope Z_scope.

Record dext : Type := mkDext {
  e_pic : option (bool * Z);      (* M bit, PictureID *)
  e_tl0 : option Z;               (* TL0PICIDX *)
  e_tid : option (Z * bool);      (* TID, Y *)
  e_key : option Z                (* KEYIDX *)
}.

Record desc : Type := mkDesc { d_n : bool; d_s : bool; d_pid : Z; d_ext : option dext }.

Definition bit (b : bool) (w : Z) : Z := if b then w else 0.
Definition some {A} (o : option A) : bool := match o with Some _ => true | None => false end.

Definition enc_ext (e : dext) : list Z :=
  [bit (some (e_pic e)) 128 + bit (some (e_tl0 e)) 64 + bit (some (e_tid e)) 32 + bit (some (e_key e)) 16]
  ++ match e_pic e with
     | Some (true, id) => [128 + id / 256; id mod 256]
     | Some (false, id) => [id]
     | None => []
     end
  ++ match e_tl0 e with Some v => [v] | None => [] end
  ++ (if some (e_tid e) || some (e_key e)
      then [match e_tid e with Some (tid, y) => tid * 64 + bit y 32 | None => 0 end
            + match e_key e with Some k => k | None => 0 end]
      else []).

Definition encode_desc (d : desc) : list Z :=
  [bit (some (d_ext d)) 128 + bit (d_n d) 32 + bit (d_s d) 16 + d_pid d]
  ++ match d_ext d with Some e => enc_ext e | None => [] end.

Definition wf_desc (d : desc) : Prop :=
  0 <= d_pid d < 8 /\
  match d_ext d with
  | None => True
  | Some e =>
    match e_pic e with Some (true, id) => 0 <= id < 32768 | Some (false, id) => 0 <= id < 128 | None => True end /\
    match e_tl0 e with Some v => 0 <= v < 256 | None => True end /\
    match e_tid e with Some (tid, _) => 0 <= tid < 4 | None => True end /\
    match e_key e with Some k => 0 <= k < 32 | None => True end
  end.

(* what the descriptor means, as the fields of a VP8Packet; ignored fields read as 0 *)
Definition fields_of (d : desc) (rest : list Z) : vp8pkt :=
  match d_ext d with
  | None => mkVp8Pkt 0 (bit (d_n d) 1) (bit (d_s d) 1) (d_pid d) 0 0 0 0 0 0 0 0 0 rest
  | Some e =>
    mkVp8Pkt 1 (bit (d_n d) 1) (bit (d_s d) 1) (d_pid d)
             (bit (some (e_pic e)) 1) (bit (some (e_tl0 e)) 1) (bit (some (e_tid e)) 1) (bit (some (e_key e)) 1)
             (match e_pic e with Some (_, id) => id | None => 0 end)
             (match e_tl0 e with Some v => v | None => 0 end)
             (match e_tid e with Some (tid, _) => tid | None => 0 end)
             (match e_tid e with Some (_, y) => bit y 1 | None => 0 end)
             (match e_key e with Some k => k | None => 0 end)
             rest
  end.
