(* RFC 8285 extension blocks written from the RFC text: a block body is a sequence of items,
   each a padding byte or an element, in any order (section 4.1: "padding ... may be placed
   between extension elements"), independent of the library's encoder. *)
From Coq Require Import ZArith List Lia Bool.
From RTP Require Import Base.ListX Model.RtpPacket.
Import ListNotations.
Open Scope Z_scope.

Inductive item : Type :=
| IPad
| IElem (id : Z) (v : list Z).

(* one-byte form (4.2):  0 1 2 3 4 5 6 7 = ID (4 bits) | len-1 (4 bits), then len bytes *)
Definition enc_item1 (it : item) : list Z :=
  match it with
  | IPad => [0]
  | IElem id v => (id * 16 + (zlen v - 1)) :: v
  end.

(* two-byte form (4.3): ID (8 bits), length (8 bits), then length bytes *)
Definition enc_item2 (it : item) : list Z :=
  match it with
  | IPad => [0]
  | IElem id v => id :: zlen v :: v
  end.

(* one-byte elements a receiver has to walk: any non-zero byte whose id nibble is not 15.  RFC 8285
   reserves id 0 for padding, so senders use ids 1-14; the byte 0x0L with L <> 0 is nevertheless an
   element header (id 0, L+1 value bytes) to the walk, and is included here so that the decoding
   and re-encoding theorems cover every input the walk accepts. *)
Definition wf_item1 (it : item) : Prop :=
  match it with
  | IPad => True
  | IElem id v => 0 <= id <= 14 /\ 1 <= zlen v <= 16 /\ (id = 0 -> 2 <= zlen v)
  end.

Definition wf_item2 (it : item) : Prop :=
  match it with
  | IPad => True
  | IElem id v => 1 <= id <= 255 /\ 0 <= zlen v <= 255
  end.

Fixpoint elems (items : list item) : list ext :=
  match items with
  | [] => []
  | IPad :: t => elems t
  | IElem id v :: t => mkExt id v :: elems t
  end.

Definition enc_items (two_byte : bool) (items : list item) : list Z :=
  concat (map (if two_byte then enc_item2 else enc_item1) items).

Lemma elems_app a b : elems (a ++ b) = elems a ++ elems b.
Proof. induction a as [|[|id v] a IH]; cbn [elems app]; [reflexivity|assumption|rewrite IH; reflexivity]. Qed.

Lemma elems_pads k : elems (repeat IPad k) = [].
Proof. induction k; cbn; auto. Qed.

Lemma elems_of_exts es : elems (map (fun e => IElem (eid e) (epayload e)) es) = es.
Proof. induction es as [|[id v] es IH]; cbn [map elems eid epayload]; [reflexivity|rewrite IH; reflexivity]. Qed.

Lemma enc_items_pads two k : enc_items two (repeat IPad k) = repeat 0 k.
Proof. unfold enc_items. induction k; cbn [repeat map concat]; [reflexivity|]. rewrite IHk. destruct two; reflexivity. Qed.

Lemma enc_items_app two a b : enc_items two (a ++ b) = enc_items two a ++ enc_items two b.
Proof. unfold enc_items. rewrite map_app, concat_app. reflexivity. Qed.
