(* draft-ietf-payload-vp9 section 4.2: the VP9 payload descriptor, written from the figures,
   arithmetic only (no shifts or masks): flexible and non-flexible mode, picture id forms, layer
   indices, reference indices, scalability structure. *)
From Coq Require Import ZArith List Lia Bool.
From RTP Require Import Base.ListX Model.Vp9.
Import ListNotations.
Open Scope Z_scope.

Definition bit (b : bool) (w : Z) : Z := if b then w else 0.
Definition some {A} (o : option A) : bool := match o with Some _ => true | None => false end.

Record vlayer : Type := mkVLayer { ly_tid : Z; ly_u : bool; ly_sid : Z; ly_d : bool }.
Record pgroup : Type := mkPGroup { pg_tid : Z; pg_u : bool; pg_pdiffs : list Z }.
Record sstruct : Type := mkSS {
  ss_ns : Z;                              (* N_S: number of spatial layers minus one *)
  ss_res : option (list (Z * Z));         (* Y: width, height per spatial layer *)
  ss_pgs : option (list pgroup) }.        (* G: the picture group *)

Record vdesc : Type := mkVDesc {
  vd_pid : option (bool * Z);             (* I: M bit and picture id *)
  vd_p : bool; vd_f : bool; vd_b : bool; vd_e : bool; vd_z : bool;
  vd_layer : option vlayer;               (* L *)
  vd_tl0 : Z;                             (* TL0PICIDX: present iff L and not F *)
  vd_pdiffs : list Z;                     (* P_DIFFs: present iff F and P *)
  vd_ss : option sstruct }.               (* V *)

Fixpoint enc_pdiffs (ds : list Z) : list Z :=
  match ds with
  | [] => []
  | [d] => [d * 2]
  | d :: t => (d * 2 + 1) :: enc_pdiffs t
  end.

Definition enc_res (rs : list (Z * Z)) : list Z :=
  flat_map (fun r => [fst r / 256; fst r mod 256; snd r / 256; snd r mod 256]) rs.

Definition enc_pg (g : pgroup) : list Z :=
  (pg_tid g * 32 + bit (pg_u g) 16 + zlen (pg_pdiffs g) * 4) :: pg_pdiffs g.

Definition enc_ss (s : sstruct) : list Z :=
  [ss_ns s * 32 + bit (some (ss_res s)) 16 + bit (some (ss_pgs s)) 8]
  ++ match ss_res s with Some rs => enc_res rs | None => [] end
  ++ match ss_pgs s with Some gs => zlen gs :: flat_map enc_pg gs | None => [] end.

Definition encode_vdesc (d : vdesc) : list Z :=
  [bit (some (vd_pid d)) 128 + bit (vd_p d) 64 + bit (some (vd_layer d)) 32 + bit (vd_f d) 16 +
   bit (vd_b d) 8 + bit (vd_e d) 4 + bit (some (vd_ss d)) 2 + bit (vd_z d) 1]
  ++ match vd_pid d with
     | Some (true, id) => [128 + id / 256; id mod 256]
     | Some (false, id) => [id]
     | None => []
     end
  ++ match vd_layer d with
     | Some l => (ly_tid l * 32 + bit (ly_u l) 16 + ly_sid l * 2 + bit (ly_d l) 1)
                 :: (if vd_f d then [] else [vd_tl0 d])
     | None => []
     end
  ++ (if vd_f d && vd_p d then enc_pdiffs (vd_pdiffs d) else [])
  ++ match vd_ss d with Some s => enc_ss s | None => [] end.

Definition wf_pg (g : pgroup) : Prop :=
  0 <= pg_tid g < 8 /\ (length (pg_pdiffs g) <= 3)%nat /\ Forall (fun x => 0 <= x < 256) (pg_pdiffs g).

Definition wf_ss (s : sstruct) : Prop :=
  0 <= ss_ns s < 8 /\
  match ss_res s with
  | Some rs => zlen rs = ss_ns s + 1 /\ Forall (fun r => 0 <= fst r < 65536 /\ 0 <= snd r < 65536) rs
  | None => True
  end /\
  match ss_pgs s with Some gs => zlen gs < 256 /\ Forall wf_pg gs | None => True end.

Definition wf_vdesc (d : vdesc) : Prop :=
  match vd_pid d with Some (true, id) => 0 <= id < 32768 | Some (false, id) => 0 <= id < 128 | None => True end /\
  match vd_layer d with Some l => 0 <= ly_tid l < 8 /\ 0 <= ly_sid l < 5 | None => True end /\
  0 <= vd_tl0 d < 256 /\
  (vd_f d && vd_p d = true -> (1 <= length (vd_pdiffs d) <= 3)%nat /\ Forall (fun x => 0 <= x < 128) (vd_pdiffs d)) /\
  match vd_ss d with Some s => wf_ss s | None => True end.

(* what the descriptor means, as the fields of a VP9Packet; absent fields read as zero values *)
Definition fields_of (d : vdesc) (rest : list Z) : vp9pkt :=
  mkVp9Pkt (some (vd_pid d)) (vd_p d) (some (vd_layer d)) (vd_f d) (vd_b d) (vd_e d) (some (vd_ss d)) (vd_z d)
    (match vd_pid d with Some (_, id) => id | None => 0 end)
    (match vd_layer d with Some l => ly_tid l | None => 0 end)
    (match vd_layer d with Some l => ly_u l | None => false end)
    (match vd_layer d with Some l => ly_sid l | None => 0 end)
    (match vd_layer d with Some l => ly_d l | None => false end)
    (if vd_f d && vd_p d then vd_pdiffs d else [])
    (match vd_layer d with Some _ => if vd_f d then 0 else vd_tl0 d | None => 0 end)
    (match vd_ss d with Some s => ss_ns s | None => 0 end)
    (match vd_ss d with Some s => some (ss_res s) | None => false end)
    (match vd_ss d with Some s => some (ss_pgs s) | None => false end)
    (match vd_ss d with Some s => match ss_pgs s with Some gs => zlen gs | None => 0 end | None => 0 end)
    (match vd_ss d with Some s => match ss_res s with Some rs => map fst rs | None => [] end | None => [] end)
    (match vd_ss d with Some s => match ss_res s with Some rs => map snd rs | None => [] end | None => [] end)
    (match vd_ss d with Some s => match ss_pgs s with Some gs => map pg_tid gs | None => [] end | None => [] end)
    (match vd_ss d with Some s => match ss_pgs s with Some gs => map pg_u gs | None => [] end | None => [] end)
    (match vd_ss d with Some s => match ss_pgs s with Some gs => map pg_pdiffs gs | None => [] end | None => [] end)
    rest.
