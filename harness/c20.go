package main

import (
	"bytes"
	"fmt"
	"unsafe"

	"github.com/pion/rtp"
)

// C20: Clone returns an equal, fully independent copy.
// opcode 2004: xwire1 xwire2 (the packet a receiver holds after decoding both);  2001: desc payload padsize;  2002: desc payload padsize [pre-ops] (Set/Del calls applied before Clone);  2003: xwire (the packet Unmarshal makes of it).  Observable: the clone, and for CSRC / each extension value /
// payload whether the clone's slice is disjoint from the original's memory (1) or shares it (0).

func u32Overlap(a, b []uint32) bool {
	if cap(a) == 0 || cap(b) == 0 {
		return false
	}
	a0 := uintptr(unsafe.Pointer(unsafe.SliceData(a)))
	b0 := uintptr(unsafe.Pointer(unsafe.SliceData(b)))
	return a0 < b0+uintptr(4*cap(b)) && b0 < a0+uintptr(4*cap(a))
}

func snapshotPacket(p *rtp.Packet) string {
	b, err := p.Marshal()
	return Render(vPacket(p)) + fmt.Sprintf("|%x|%v", b, err)
}

// applyPreOps runs Set/Del operations ([1 id value] / [2 id]) on a header before it is cloned, so
// that the clone is taken of a header with a history (e.g. an emptied element list that still has
// capacity), not only of freshly built ones.
func applyPreOps(h *rtp.Header, pre []Tok) {
	for _, op := range pre {
		l := tokList(op)
		if tokInt(l[0]) == 1 {
			_ = h.SetExtension(uint8(tokInt(l[1])), tokBytes(l[2]))
		} else {
			_ = h.DelExtension(uint8(tokInt(l[1])))
		}
	}
}

func clonePayload(payload []byte) []byte {
	if payload == nil {
		return nil // a packet without payload slice, as GeneratePadding builds them
	}
	return append([]byte{}, payload...)
}

func runClone(d hdrDesc, payload []byte, pad int, pre []Tok) Outcome {
	var o Outcome
	o.Tags = hdrTags(d)
	if _, err := d.build(); err != nil {
		o.Impl = T(98, Unit)
		return o
	}
	mk := func() *rtp.Packet {
		h, _ := d.build()
		applyPreOps(&h, pre)
		h.PayloadOffset = 7
		return &rtp.Packet{Header: h, Payload: clonePayload(payload), PaddingSize: byte(pad)}
	}
	if payload == nil {
		o.Tags = append(o.Tags, "nil payload")
	}
	if len(pre) > 0 {
		o.Tags = append(o.Tags, fmt.Sprintf("pre-ops, %d elements left", len(mk().GetExtensionIDs())))
	}
	return runCloneOf(o, mk)
}

// runCloneFromWire clones a packet that Unmarshal produced: its element list can hold what no
// SetExtension call creates (a one-byte element with id 0, a legacy value), its slices alias the wire.
func runCloneFromWire(wire []byte) Outcome {
	var o Outcome
	probe := &rtp.Packet{}
	if err := probe.Unmarshal(append([]byte{}, wire...)); err != nil {
		o.Impl = T(97, Unit)
		return o
	}
	o.Tags = []string{"from wire"}
	return runCloneOf(o, func() *rtp.Packet {
		p := &rtp.Packet{}
		_ = p.Unmarshal(append([]byte{}, wire...))
		return p
	})
}

// runCloneOfReused clones a receiver with a past: it decoded wire w1, then wire w2 (a list that was
// emptied keeps its capacity, a CSRC slice that shrank keeps its tail)
func runCloneOfReused(w1, w2 []byte) Outcome {
	var o Outcome
	mk := func() *rtp.Packet {
		p := &rtp.Packet{}
		if p.Unmarshal(append([]byte{}, w1...)) != nil || p.Unmarshal(append([]byte{}, w2...)) != nil {
			return nil
		}
		return p
	}
	if mk() == nil {
		o.Impl = T(97, Unit)
		return o
	}
	o.Tags = []string{"from a reused receiver"}
	return runCloneOf(o, mk)
}

func runCloneOf(o Outcome, mk func() *rtp.Packet) Outcome {
	orig := mk()
	var cl *rtp.Packet
	if pn, what := catch(func() { cl = orig.Clone() }); pn {
		o.Impl, o.Fail = PanicV(), "Clone panicked: "+what
		return o
	}
	o.Nontrivial = len(orig.CSRC) > 0 || orig.Extension || len(orig.Payload) > 0
	extFlags := VList{}
	ids := orig.GetExtensionIDs()
	for _, id := range ids {
		extFlags = append(extFlags, Bool(!overlaps(cl.GetExtension(id), orig.GetExtension(id))))
	}
	o.Impl = L(vPacket(cl), L(Bool(!u32Overlap(cl.CSRC, orig.CSRC)), extFlags, Bool(!overlaps(cl.Payload, orig.Payload))))
	if !hdrEquivalent(&orig.Header, &cl.Header) || !bytes.Equal(orig.Payload, cl.Payload) || orig.PaddingSize != cl.PaddingSize ||
		cl.PayloadOffset != orig.PayloadOffset || cl.ExtensionProfile != orig.ExtensionProfile {
		o.Fail = "clone differs from the original"
		return o
	}
	hc := orig.Header.Clone()
	if !hdrEquivalent(&orig.Header, &hc) {
		o.Fail = "Header.Clone differs from the original"
	}
	// equal also in what it serialises to (elements that have no accessor-visible id of their own included)
	if bo, eo := orig.Marshal(); true {
		if bc, ec := cl.Marshal(); (eo == nil) != (ec == nil) || !bytes.Equal(bo, bc) {
			o.Fail = fmt.Sprintf("the clone serialises to %x (err %v), the original to %x (err %v)", bc, ec, bo, eo)
		}
	}
	// every single mutation of one side leaves the other as it was
	type mut struct {
		name string
		f    func(p *rtp.Packet)
	}
	var muts []mut
	for i := range orig.Payload {
		i := i
		if i < 3 || i == len(orig.Payload)-1 {
			muts = append(muts, mut{fmt.Sprintf("payload[%d]^=0xFF", i), func(p *rtp.Packet) { p.Payload[i] ^= 0xFF }})
		}
	}
	for i := range orig.CSRC {
		i := i
		muts = append(muts, mut{fmt.Sprintf("CSRC[%d]++", i), func(p *rtp.Packet) { p.CSRC[i]++ }})
	}
	for _, id := range ids {
		id := id
		if len(orig.GetExtension(id)) > 0 {
			muts = append(muts, mut{fmt.Sprintf("extension %d byte 0 ^= 0xFF", id), func(p *rtp.Packet) { p.GetExtension(id)[0] ^= 0xFF }})
		}
		muts = append(muts, mut{fmt.Sprintf("DelExtension(%d)", id), func(p *rtp.Packet) { _ = p.DelExtension(id) }})
		muts = append(muts, mut{fmt.Sprintf("SetExtension(%d, new value)", id), func(p *rtp.Packet) { _ = p.SetExtension(id, []byte{0x5A}) }})
	}
	if !orig.Extension || orig.ExtensionProfile == 0xBEDE || isTwoByte(orig.ExtensionProfile) {
		muts = append(muts, mut{"SetExtension(new id)", func(p *rtp.Packet) {
			for id := uint8(1); id <= 14; id++ {
				if p.GetExtension(id) == nil {
					_ = p.SetExtension(id, []byte{1, 2})
					return
				}
			}
		}})
	}
	for _, m := range muts {
		for side := 0; side < 2; side++ {
			a := mk()
			b := a.Clone()
			target, other := a, b
			if side == 1 {
				target, other = b, a
			}
			before := snapshotPacket(other)
			if pn, what := catch(func() { m.f(target) }); pn {
				o.Fail = fmt.Sprintf("mutation %s panicked: %s", m.name, what)
				continue
			}
			if snapshotPacket(other) != before {
				who := "the clone"
				if side == 1 {
					who = "the original"
				}
				o.Fail = fmt.Sprintf("mutation %q of %s changed the other packet", m.name, map[int]string{0: "the original", 1: "the clone"}[side])
				_ = who
			}
			// then the other side adds an extension of its own: the first side must not see it
			if !other.Extension || other.ExtensionProfile == 0xBEDE || isTwoByte(other.ExtensionProfile) {
				afterT := snapshotPacket(target)
				for id := uint8(14); id >= 1; id-- {
					if other.GetExtension(id) == nil {
						_ = other.SetExtension(id, []byte{0xC3, 0x3C, 0x01})
						break
					}
				}
				if snapshotPacket(target) != afterT {
					o.Fail = fmt.Sprintf("after %q on %s, SetExtension on the other packet changed it (shared element list)", m.name, map[int]string{0: "the original", 1: "the clone"}[side])
				}
			}
		}
	}
	return o
}

func init() {
	register(&Prop{
		ID:       "C20",
		Rule:     "well-formed packets as in C01 with every field populated, one in eight taken from Unmarshal of a wire image, one in ten from a receiver that decoded two wire images in a row (plus fixed wires with one-byte id-0 elements, in-block padding, legacy and empty blocks), with and without a payload slice (nil), one in eight with a padding flag and a padding size that do not go together, a third of the extension-carrying headers with a Set/Del history before the clone (element list emptied or shrunk); observable = the clone and, per slice, whether its memory is disjoint from the original's; oracle = equality incl. padding size and PayloadOffset, then every single mutation (payload bytes, each CSRC entry, each extension value byte, SetExtension / DelExtension of each id, SetExtension of a new id) applied to the original and to the clone, each followed by a SetExtension on the other side; non-trivial = has CSRCs, an extension or a payload",
		Quick:    3000,
		Thorough: 100000,
		Gen: func(r *RNG, tier string, n int, emit func(op int, toks ...Tok)) {
			// packets that only Unmarshal can produce: one-byte elements with id 0, padding bytes in the block,
			// a legacy block, RTP padding - cloned as they come off the wire
			hdr12 := []byte{0x90, 0x60, 0, 1, 0, 0, 0, 2, 0, 0, 0, 3}
			for _, blk := range [][]byte{
				{0xBE, 0xDE, 0, 1, 0x01, 0xAA, 0xBB, 0x00},
				{0xBE, 0xDE, 0, 2, 0x50, 0x11, 0x01, 0xAA, 0xBB, 0x30, 0xCC, 0x00},
				{0xBE, 0xDE, 0, 2, 0x00, 0x0F, 1, 2, 3, 4, 5, 6},
				{0x10, 0x00, 0, 1, 0x07, 0x00, 0x00, 0x00},
				{0x12, 0x34, 0, 1, 9, 8, 7, 6},
				{0xBE, 0xDE, 0, 0},
			} {
				w := append(append(append([]byte{}, hdr12...), blk...), 0x99, 0x98)
				emit(2003, TBytes(w))
			}
			emit(2003, TBytes([]byte{0xA0, 0x60, 0, 1, 0, 0, 0, 2, 0, 0, 0, 3, 0x99, 0, 0, 3}))
			emit(2001, hdrDesc{version: 2, pt: 96, padding: false}.tok(), TB([]byte{1, 2, 3}), TI(4))
			emit(2001, hdrDesc{version: 2, pt: 96, padding: true}.tok(), TB([]byte{1, 2, 3}), TI(0))
			// a reused receiver: a packet with extensions and CSRCs, then one without
			emit(2004, TBytes(usedReceiverWires[0]), TBytes(usedReceiverWires[2]))
			emit(2004, TBytes(usedReceiverWires[1]), TBytes(append(append([]byte{}, usedReceiverWires[2]...), 0x42, 0x43)))
			emit(2004, TBytes(usedReceiverWires[0]), TBytes(usedReceiverWires[1]))
			for i := 0; i < n; i++ {
				c := r.Fork(uint64(i))
				if c.Intn(8) == 0 {
					emit(2003, TBytes(wfWire(c)))
					continue
				}
				if c.Intn(10) == 0 {
					emit(2004, TBytes(wfWire(c)), TBytes(wfWire(c)))
					continue
				}
				d, pl, pad := genWfPacket(c)
				if c.Intn(6) == 0 {
					pl = nil // no payload slice at all (padding-only packets are built like this)
				}
				if c.Intn(8) == 0 {
					// "every packet": also one whose padding flag and padding size do not go together (a size without
					// the flag, the flag without a size) - Clone copies fields, it does not judge them
					d.padding = !d.padding
				}
				if c.Intn(3) == 0 && d.ext && (d.profile == 0xBEDE || isTwoByte(d.profile)) {
					// a header with a history: delete some or all elements, maybe set one again
					pre := TList{}
					for _, e := range d.exts {
						if c.Intn(4) != 0 {
							pre = append(pre, TList{TI(2), TI(int64(e.id))})
						}
					}
					if c.Intn(3) == 0 {
						pre = append(pre, TList{TI(1), TI(int64(1 + c.Intn(14))), TBytes(c.Bytes(1 + c.Intn(4)))})
					}
					emit(2002, d.tok(), TB(pl), TI(int64(pad)), pre)
					continue
				}
				emit(2001, d.tok(), TB(pl), TI(int64(pad)))
			}
		},
		Run: func(op int, toks []Tok) Outcome {
			if op == 2003 {
				return runCloneFromWire(tokBytes(toks[0]))
			}
			if op == 2004 {
				return runCloneOfReused(tokBytes(toks[0]), tokBytes(toks[1]))
			}
			var pre []Tok
			if op == 2002 {
				pre = tokList(toks[3])
			}
			return runClone(hdrDescFromTok(toks[0]), tokBytes(toks[1]), int(tokInt(toks[2])), pre)
		},
	})
}
