package main

import (
	"bytes"
	"fmt"
	"time"

	"github.com/pion/rtp"
	"github.com/pion/rtp/codecs"
)

// C06: the packetizer emits a valid, MTU-bounded, correctly numbered packet train.
// opcode 601: mtu pt ssrc ts0 seq0 payloaderCode [ops]
//   ops: [1 xpayload samples nowUnixNano] Packetize | [2 n] GeneratePadding | [3 n] SkipSamples | [4 v] EnableAbsSendTime
//   payloaders: 0 G711, 1 G722, 2 Opus, 3 VP8 (no picture id), 4 a caller-defined one that emits nothing for some payloads
// Built through the verif hook so that the initial timestamp and the clock are the case's.

func newPayloader(code int) rtp.Payloader {
	switch code {
	case 0:
		return &codecs.G711Payloader{}
	case 1:
		return &codecs.G722Payloader{}
	case 2:
		return &codecs.OpusPayloader{}
	}
	if code == 4 {
		return gatePayloader{}
	}
	// op 602 only: the payloaders that carry state from call to call (held parameter sets, picture ids, DONL)
	switch code {
	case 5:
		return &codecs.H264Payloader{}
	case 6:
		return &codecs.H264Payloader{DisableStapA: true}
	case 7:
		return &codecs.H265Payloader{}
	case 8:
		return &codecs.H265Payloader{AddDONL: true, SkipAggregation: true}
	case 9:
		return &codecs.VP8Payloader{EnablePictureID: true}
	case 10:
		return &codecs.VP9Payloader{FlexibleMode: true, InitialPictureIDFn: func() uint16 { return 32766 }}
	case 11:
		return &codecs.VP9Payloader{InitialPictureIDFn: func() uint16 { return 126 }}
	case 12:
		return &codecs.AV1Payloader{}
	}
	return &codecs.VP8Payloader{}
}

// gatePayloader is a caller-defined Payloader (the interface is public): it emits nothing for a
// payload whose first byte is below 128 - as H264Payloader does for a lone SPS, PPS or AUD - and
// splits like G711 otherwise.  It lets the packetizer's handling of a call that yields no
// fragments be compared with the model, which is parametric in the payloader.
type gatePayloader struct{}

func (gatePayloader) Payload(mtu uint16, payload []byte) [][]byte {
	if len(payload) == 0 || payload[0] < 128 {
		return nil
	}
	return (&codecs.G711Payloader{}).Payload(mtu, payload)
}

// recPayloader hands every call through to the real payloader and keeps a copy of what it returned:
// "packets that carry the payloader's fragments unchanged and in order" is judged against the fragments
// the payloader actually gave the packetizer, whatever room the packetizer chose to offer it (the
// property bounds the packets by the MTU, it does not say how the budget is computed)
type recPayloader struct {
	inner   rtp.Payloader
	last    [][]byte
	calls   int
	lastMTU uint16
}

func (r *recPayloader) Payload(mtu uint16, payload []byte) [][]byte {
	out := r.inner.Payload(mtu, payload)
	r.calls++
	r.lastMTU = mtu
	r.last = nil
	for _, f := range out {
		r.last = append(r.last, append([]byte{}, f...))
	}
	return out
}

func runPacketizer(toks []Tok) Outcome { return runPacketizerOp(601, toks) }

// op 602 has the shape of op 601 with a payloader that keeps state between calls (codes 5-12).  The model is
// parametric in a pure payloader function, so these cases carry no model observable; what is judged is the
// property's clause on the implementation: a CONTROL instance of the same payloader, fed every payload exactly
// once with the room the packetizer offered, says which fragments the packets must carry - a packetizer that
// calls its payloader twice, or not at all, loses held parameter sets or skips picture ids and is seen here.
func runPacketizerOp(opc int, toks []Tok) Outcome {
	var o Outcome
	mtu, pt, ssrc := uint16(tokInt(toks[0])), uint8(tokInt(toks[1])), uint32(tokInt(toks[2]))
	ts0, seq0, code := uint32(tokInt(toks[3])), uint16(tokInt(toks[4])), int(tokInt(toks[5]))
	var now int64
	rec := &recPayloader{inner: newPayloader(code)}
	control := newPayloader(code)
	pz := rtp.VerifNewPacketizer(mtu, pt, ssrc, rec, rtp.NewFixedSequencer(seq0), 90000, ts0,
		func() time.Time { return time.Unix(0, now) })
	res := VList{}
	ts, seq, abs := ts0, seq0, 0
	// samples of calls with an EMPTY payload since the timestamp was last seen: the property speaks of
	// non-empty payloads only, so whether such a call advances the timestamp is the implementation's choice
	// (one choice, kept: the first packet seen afterwards settles it)
	var slack uint32
	fail := func(f string, a ...interface{}) {
		if o.Fail == "" {
			o.Fail = fmt.Sprintf(f, a...)
		}
	}
	for oi, op := range tokList(toks[6]) {
		l := tokList(op)
		var pk []*rtp.Packet
		kind := tokInt(l[0])
		switch kind {
		case 1:
			payload, samples := tokBytes(l[1]), uint32(tokInt(l[2]))
			now = tokInt(l[3])
			rec.last, rec.calls = nil, 0
			if pn, what := catch(func() { pk = pz.Packetize(payload, samples) }); pn {
				res = append(res, PanicV())
				fail("op %d: Packetize panicked: %s", oi, what)
				continue
			}
			if len(payload) > 0 {
				want := rec.last
				if opc == 602 && rec.calls > 0 {
					want = control.Payload(rec.lastMTU, append([]byte{}, payload...))
				}
				if len(pk) != len(want) {
					fail("op %d: %d packets for %d fragments", oi, len(pk), len(want))
				}
				if len(pk) > 0 && slack != 0 {
					if pk[0].Timestamp == ts+slack {
						ts += slack
					}
					slack = 0
				}
				for i, p := range pk {
					if i < len(want) && !bytes.Equal(p.Payload, want[i]) {
						fail("op %d: packet %d does not carry fragment %d unchanged", oi, i, i)
					}
					if p.SequenceNumber != seq || p.Timestamp != ts || p.SSRC != ssrc || p.PayloadType != pt || p.Version != 2 ||
						p.Marker != (i == len(pk)-1) || p.Padding {
						fail("op %d: packet %d header wrong (seq %d want %d, ts %d want %d, marker %v)", oi, i, p.SequenceNumber, seq, p.Timestamp, ts, p.Marker)
					}
					seq++
					hasExt := p.Extension
					if hasExt != (abs != 0 && i == len(pk)-1) {
						fail("op %d: extension presence wrong on packet %d", oi, i)
					}
					if hasExt {
						var e rtp.AbsSendTimeExtension
						if err := e.Unmarshal(p.GetExtension(uint8(abs))); err != nil ||
							e.Timestamp != rtp.NewAbsSendTimeExtension(time.Unix(0, now)).Timestamp&0xFFFFFF {
							fail("op %d: abs-send-time does not hold the send instant", oi)
						}
					}
					if code != 2 && p.MarshalSize() > int(mtu) {
						fail("op %d: packet %d serialises to %d bytes, MTU %d", oi, i, p.MarshalSize(), mtu)
					}
				}
				ts += samples
				if len(pk) >= 2 {
					o.Nontrivial = true
				}
			} else {
				if len(pk) != 0 {
					fail("op %d: packets for an empty payload", oi)
				}
				slack += samples
			}
		case 2:
			n := uint32(tokInt(l[1]))
			if pn, what := catch(func() { pk = pz.GeneratePadding(n) }); pn {
				res = append(res, PanicV())
				fail("op %d: GeneratePadding panicked: %s", oi, what)
				continue
			}
			if len(pk) != int(n) {
				fail("op %d: GeneratePadding(%d) returned %d packets", oi, n, len(pk))
			}
			for i, p := range pk {
				// "n packets, continuing the same sequence, ... valid padding-only RTP packets" (timestamp and
				// marker of a padding packet are not the property's business)
				if p.SequenceNumber != seq || !p.Padding || p.SSRC != ssrc {
					fail("op %d: padding packet %d header wrong (seq %d want %d)", oi, i, p.SequenceNumber, seq)
				}
				seq++
				b, err := p.Marshal()
				var q rtp.Packet
				if err != nil {
					fail("op %d: padding packet does not serialise: %v", oi, err)
				} else if e2 := q.Unmarshal(b); e2 != nil || len(q.Payload) != 0 || q.PaddingSize == 0 || !q.Padding {
					fail("op %d: padding packet is not a valid padding-only RTP packet", oi)
				}
			}
			o.Nontrivial = true
		case 3:
			n := uint32(tokInt(l[1]))
			pz.SkipSamples(n)
			ts += n
		case 4:
			abs = int(tokInt(l[1]))
			pz.EnableAbsSendTime(abs)
		}
		if kind == 3 || kind == 4 {
			res = append(res, Unit)
			continue
		}
		items := VList{}
		for i, p := range pk {
			items = append(items, vPacket(p))
			// every returned packet parses back equal
			b, err := p.Marshal()
			if err == nil {
				var q rtp.Packet
				if e2 := q.Unmarshal(b); e2 != nil || !hdrEquivalent(&p.Header, &q.Header) || !bytes.Equal(p.Payload, q.Payload) || p.PaddingSize != q.PaddingSize {
					fail("op %d: packet %d does not parse back equal", oi, i)
				}
			} else if kind == 1 {
				fail("op %d: packet %d does not serialise: %v", oi, i, err)
			}
		}
		res = append(res, items)
	}
	o.Impl = res
	if opc == 602 {
		o.Impl = Unit
	}
	return o
}

// statefulInput: an input the payloader of the given code does something with
func statefulInput(c *RNG, code, budget int) []byte {
	switch code {
	case 5, 6:
		units := genAccessUnit(c, budget)
		if c.Intn(3) == 0 { // parameter sets alone: held until a later call
			units = [][]byte{genH264Nal(c, 7, 2+c.Intn(12))}
			if c.Bool() {
				units = append(units, genH264Nal(c, 8, 2+c.Intn(6)))
			}
		}
		return annexB(c, units)
	case 7, 8:
		var units [][]byte
		for k, kn := 0, 1+c.Intn(3); k < kn; k++ {
			units = append(units, genH265Nal(c, c.Pick(3, 5, budget/2, budget-3, budget, 2*budget)))
		}
		return annexB(c, units)
	case 10, 11:
		return genVp9Frame(c).bytes
	case 12:
		b := encodeOBUs(genOBUs(c, budget))
		if len(b) == 0 {
			b = []byte{0x32, 0x01, 0xAA}
		}
		return b
	}
	return c.Bytes(1 + c.Intn(3*budget))
}

func init() {
	register(&Prop{
		ID:       "C06",
		Rule:     "sequences of 1-8 Packetize / SkipSamples / GeneratePadding / EnableAbsSendTime calls on one packetizer: MTU 64-1500 (mass on 64-120) and, one case in eight, 0-30 (no or hardly any room behind the header), payloaders G711, G722, Opus (inputs below the budget), VP8 and a caller-defined payloader that returns no fragment for half of its inputs; payload sizes 1 B to 4 budgets incl. exact multiples of the budget; abs-send-time ids 1-14 and, one time in eight, 15 / 16 / 100 / 255 (two-byte form); sequence starts near 65535; timestamps near 2^32; clock instants over the NTP era; non-trivial = a call that produced >= 2 packets or padding",
		Quick:    4000,
		Thorough: 200000,
		Gen: func(r *RNG, tier string, n int, emit func(op int, toks ...Tok)) {
			for i := 0; i < n; i++ {
				c := r.Fork(uint64(i))
				mtu := c.Pick(64, 65, 72, 100, 120, 1200, 1500, 64+c.Intn(200))
				if i%8 == 3 {
					// "every MTU": also those that leave no room, or hardly any, behind the RTP header (12 bytes, 20 or 24
					// with abs-send-time) - nothing can be sent then, and nothing larger than the MTU may be
					mtu = c.Pick(0, 1, 11, 12, 13, 14, 19, 20, 21, 23, 24, 25, 26, 30)
				}
				code := c.Pick(0, 1, 2, 3, 4)
				ops := TList{}
				abs := 0
				for k, kn := 0, 1+c.Intn(8); k < kn; k++ {
					switch x := c.Intn(10); {
					case x < 5:
						budget := mtu - 12
						if abs != 0 {
							budget -= 8
						}
						if abs > 14 {
							budget -= 4 // two-byte form of the extension block
						}
						var l int
						if budget < 1 {
							budget = 1 + c.Intn(40) // no room at this MTU: any payload will do
						}
						switch c.Intn(4) {
						case 0:
							l = budget * (1 + c.Intn(3))
						case 1:
							l = 1 + c.Intn(budget)
						default:
							l = 1 + c.Intn(4*budget)
						}
						if code == 2 && l > budget {
							l = 1 + c.Intn(budget)
						}
						if c.Intn(15) == 0 {
							l = 0
						}
						ops = append(ops, TList{TI(1), TBytes(c.Bytes(l)), TI(int64(c.Pick(0, 160, 960, 3000, int(c.U64()%(1<<32))))), TI(genInstant(c))})
					case x < 7:
						ops = append(ops, TList{TI(2), TI(int64(c.Intn(4)))})
					case x < 8:
						ops = append(ops, TList{TI(3), TI(int64(c.U64() % (1 << 32)))})
					default:
						id := 1 + c.Intn(14)
						switch c.Intn(8) {
						case 0, 1:
							id = 0
						case 2:
							// ids that only the RFC 8285 two-byte form can carry
							id = c.Pick(15, 16, 100, 255)
						}
						abs = id
						ops = append(ops, TList{TI(4), TI(int64(id))})
					}
				}
				ts0 := uint32(c.U64())
				if c.Intn(3) == 0 {
					ts0 = uint32(1<<32 - 1 - c.Intn(5000))
				}
				seq0 := c.Intn(65536)
				if c.Intn(3) == 0 {
					seq0 = 65536 - 1 - c.Intn(10)
				}
				emit(601, TI(int64(mtu)), TI(int64(c.Intn(128))), TI(int64(uint32(c.U64()))), TI(int64(ts0)), TI(int64(seq0)), TI(int64(code)), ops)
				if i%4 == 0 {
					// the payloaders that keep state between calls, through the same packetizer (judged by the oracle alone)
					sc := c.Fork(602)
					scode := 5 + sc.Intn(8)
					smtu := sc.Pick(64, 100, 120, 1200, 64+sc.Intn(200))
					sops := TList{}
					if sc.Intn(3) == 0 {
						sops = append(sops, TList{TI(4), TI(int64(sc.Pick(1, 5, 14, 15, 200)))})
					}
					for k, kn := 0, 2+sc.Intn(5); k < kn; k++ {
						if sc.Intn(8) == 0 {
							sops = append(sops, TList{TI(2), TI(int64(1 + sc.Intn(2)))})
							continue
						}
						sops = append(sops, TList{TI(1), TBytes(statefulInput(sc, scode, smtu-24)), TI(int64(sc.Pick(160, 960, 3000))), TI(genInstant(sc))})
					}
					emit(602, TI(int64(smtu)), TI(int64(sc.Intn(128))), TI(int64(uint32(sc.U64()))), TI(int64(uint32(sc.U64()))), TI(int64(65536-3-sc.Intn(4))%65536), TI(int64(scode)), sops)
				}
			}
		},
		Run: func(op int, toks []Tok) Outcome { return runPacketizerOp(op, toks) },
	})
}
