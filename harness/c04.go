package main

import (
	"bytes"
	"errors"
	"fmt"
	"io"

	"github.com/pion/rtp"
)

// C04: MarshalTo honours the destination buffer contract.
// opcodes: 105 desc payload padsize dst (Packet.MarshalTo) | 106 desc dst (Header.MarshalTo)

func runMarshalTo(pkt bool, d hdrDesc, payload []byte, pad int, dst []byte) Outcome {
	var o Outcome
	o.Tags = hdrTags(d)
	h, err := d.build()
	if err != nil {
		o.Impl = T(98, Unit)
		return o
	}
	p := rtp.Packet{Header: h, Payload: payload, PaddingSize: byte(pad)}
	var size, n int
	var ref []byte
	var merr, rerr error
	g, buf := newGuarded(dst)
	before := append([]byte{}, dst...)
	pn, what := catch(func() {
		if pkt {
			size = p.MarshalSize()
			ref, rerr = p.Marshal()
			n, merr = p.MarshalTo(buf)
		} else {
			size = h.MarshalSize()
			ref, rerr = h.Marshal()
			n, merr = h.MarshalTo(buf)
		}
	})
	if pn {
		o.Impl, o.Fail = PanicV(), "panic: "+what
		return o
	}
	o.Nontrivial = true
	rel := "exact"
	switch {
	case len(dst) < size:
		rel = "short"
	case len(dst) > size:
		rel = "oversized"
	}
	o.Tags = append(o.Tags, "dst "+rel, fmt.Sprintf("padding %v", pad > 0))
	if merr != nil {
		o.Impl = errV(merr)
	} else {
		o.Impl = OkV(L(B(buf), I(int64(n))))
	}
	// guards around the destination must be untouched in every case
	for i := 0; i < g.off; i++ {
		if g.whole[i] != 0xA5 || g.whole[len(g.whole)-1-i] != 0xA5 {
			o.Fail = "wrote outside the destination slice"
		}
	}
	if rerr != nil {
		o.Fail = "Marshal of a well-formed value failed"
		return o
	}
	if len(dst) < size {
		if merr == nil || !errors.Is(merr, io.ErrShortBuffer) {
			o.Fail = fmt.Sprintf("destination of %d bytes for %d: expected a short-buffer error, got %v", len(dst), size, merr)
		}
		return o
	}
	switch {
	case merr != nil:
		o.Fail = "sufficient destination rejected: " + merr.Error()
	case n != size:
		o.Fail = fmt.Sprintf("wrote %d bytes, MarshalSize is %d", n, size)
	case !bytes.Equal(buf[:n], ref):
		o.Fail = "bytes written differ from Marshal() (destination contents leaked through)"
	case !bytes.Equal(buf[n:], before[n:]):
		o.Fail = "bytes beyond MarshalSize were modified"
	}
	if o.Fail == "" && pkt {
		o.Fail = marshalToAfterEdit(d, payload, pad, len(dst))
	}
	return o
}

// marshalToAfterEdit: the contract holds for the packet as it is NOW, whatever was marshalled from the
// same *Packet before.  The packet is marshalled once (MarshalTo through the pointer, as callers that
// reuse packets do), its header is then edited through the public API (an extension added, replaced by a
// longer / shorter value or deleted, a CSRC appended or dropped - chosen by the case), and MarshalSize /
// Marshal / MarshalTo are compared with a packet built from scratch with the same exported fields.
func marshalToAfterEdit(d hdrDesc, payload []byte, pad int, sel int) string {
	h, err := d.build()
	if err != nil {
		return ""
	}
	p := &rtp.Packet{Header: h, Payload: payload, PaddingSize: byte(pad)}
	scratch := make([]byte, p.MarshalSize()+8)
	if _, err := p.MarshalTo(scratch); err != nil {
		return ""
	}
	edit := "none"
	ids := p.GetExtensionIDs()
	switch k := sel % 6; {
	case k == 0 && (!p.Extension || p.ExtensionProfile == 0xBEDE || isTwoByte(p.ExtensionProfile)):
		for id := uint8(1); id <= 14; id++ {
			if p.GetExtension(id) == nil {
				if p.SetExtension(id, []byte{0xE1, 0xE2, 0xE3, 0xE4, 0xE5}) == nil {
					edit = fmt.Sprintf("SetExtension(%d, 5 bytes)", id)
				}
				break
			}
		}
	case k == 1 && len(ids) > 0:
		if p.DelExtension(ids[len(ids)-1]) == nil {
			edit = fmt.Sprintf("DelExtension(%d)", ids[len(ids)-1])
		}
	case k == 2 && len(ids) > 0 && ids[0] != 0:
		v := p.GetExtension(ids[0])
		nv := append(append([]byte{}, v...), 0xF1, 0xF2, 0xF3, 0xF4)
		if len(v) > 4 {
			nv = nv[:2]
		}
		if p.SetExtension(ids[0], nv) == nil {
			edit = fmt.Sprintf("SetExtension(%d, %d bytes instead of %d)", ids[0], len(nv), len(v))
		}
	case k == 3 && len(p.CSRC) < 15:
		p.CSRC = append(append([]uint32{}, p.CSRC...), 0xC0C1C2C3)
		edit = "CSRC appended"
	case k == 4 && len(p.CSRC) > 0:
		p.CSRC = p.CSRC[:len(p.CSRC)-1]
		edit = "CSRC dropped"
	case k == 5:
		p.Payload = append(append([]byte{}, p.Payload...), 1, 2, 3)
		edit = "payload grown"
	}
	if edit == "none" {
		return ""
	}
	fresh := &rtp.Packet{
		Header: rtp.Header{Version: p.Version, Padding: p.Padding, Extension: p.Extension, Marker: p.Marker, PayloadType: p.PayloadType,
			SequenceNumber: p.SequenceNumber, Timestamp: p.Timestamp, SSRC: p.SSRC, CSRC: p.CSRC,
			ExtensionProfile: p.ExtensionProfile, Extensions: p.Extensions},
		Payload: p.Payload, PaddingSize: p.PaddingSize,
	}
	want, werr := fresh.Marshal()
	if werr != nil {
		return ""
	}
	var why string
	if pn, what := catch(func() {
		if size := p.MarshalSize(); size != len(want) {
			why = fmt.Sprintf("after MarshalTo and then %s: MarshalSize is %d, the packet serialises to %d bytes", edit, size, len(want))
			return
		}
		if got, err := p.Marshal(); err != nil || !bytes.Equal(got, want) {
			why = fmt.Sprintf("after MarshalTo and then %s: Marshal gives %x (err %v), a packet with the same fields gives %x", edit, got, err, want)
			return
		}
		exact := bytes.Repeat([]byte{0xEE}, len(want))
		if n, err := p.MarshalTo(exact); err != nil || n != len(want) || !bytes.Equal(exact, want) {
			why = fmt.Sprintf("after MarshalTo and then %s: MarshalTo into exactly MarshalSize bytes: n=%d err=%v", edit, n, err)
			return
		}
		if len(want) > 0 {
			if _, err := p.MarshalTo(make([]byte, len(want)-1)); err == nil || !errors.Is(err, io.ErrShortBuffer) {
				why = fmt.Sprintf("after MarshalTo and then %s: a destination one byte short was not refused (err %v)", edit, err)
			}
		}
	}); pn {
		return "after MarshalTo and then " + edit + ": panic: " + what
	}
	return why
}

func init() {
	register(&Prop{
		ID:       "C04",
		Rule:     "well-formed packets/headers as in C01 x destination lengths 0..size+3 (all of them for packets below 40 bytes, else size-2..size+2 plus random) x prior contents 0x00 / 0xEE / random; non-trivial = every buildable case",
		Quick:    5000,
		Thorough: 200000,
		Gen: func(r *RNG, tier string, n int, emit func(op int, toks ...Tok)) {
			dp := hdrDesc{version: 2, padding: true}
			emit(105, dp.tok(), TB([]byte{1, 2}), TI(4), TB(bytes.Repeat([]byte{0xEE}, 30)))
			emit(105, dp.tok(), TB([]byte{1, 2}), TI(4), TB(bytes.Repeat([]byte{0xEE}, 18)))
			emit(105, dp.tok(), TB([]byte{1, 2}), TI(4), TB(bytes.Repeat([]byte{0xEE}, 17)))
			// the largest legal extension blocks (the byte count of the block does not fit 16 bits): all 255
			// two-byte ids with 255-byte values, legacy values of 16384 and 65535 words
			full := hdrDesc{version: 2, ext: true, profile: 0x1000}
			for id := 1; id <= 255; id++ {
				full.exts = append(full.exts, extD{uint8(id), bytes.Repeat([]byte{byte(id)}, 255)})
			}
			bigs := []hdrDesc{full}
			for _, words := range []int{16384, 65535} {
				bigs = append(bigs, hdrDesc{version: 2, ext: true, profile: 0x1234, exts: []extD{{0, bytes.Repeat([]byte{0xAB}, 4*words)}}})
			}
			for _, bd := range bigs {
				if bh, err := bd.build(); err == nil {
					size := bh.MarshalSize()
					for _, l := range []int{100, size - 1, size, size + 3} {
						emit(106, bd.tok(), TB(bytes.Repeat([]byte{0xEE}, l)))
						emit(105, bd.tok(), TB([]byte{1, 2, 3}), TI(0), TB(bytes.Repeat([]byte{0xEE}, l+3)))
					}
				}
			}
			for i := 0; i < n; {
				c := r.Fork(uint64(i))
				d, pl, pad := genWfPacket(c)
				pkt := c.Intn(3) != 0
				h, err := d.build()
				if err != nil {
					i++
					continue
				}
				size := h.MarshalSize()
				if pkt {
					size += len(pl) + pad
				} else {
					d.padding = c.Bool()
				}
				var lens []int
				if size < 40 {
					for l := 0; l <= size+3; l++ {
						lens = append(lens, l)
					}
				} else {
					lens = []int{0, size - 2, size - 1, size, size + 1, size + 2, c.Intn(size), size + c.Intn(50)}
				}
				for _, l := range lens {
					if l < 0 {
						continue
					}
					var dst []byte
					switch c.Intn(3) {
					case 0:
						dst = make([]byte, l)
					case 1:
						dst = bytes.Repeat([]byte{0xEE}, l)
					default:
						dst = c.Bytes(l)
					}
					if pkt {
						emit(105, d.tok(), TB(pl), TI(int64(pad)), TB(dst))
					} else {
						emit(106, d.tok(), TB(dst))
					}
					i++
				}
			}
		},
		Run: func(op int, toks []Tok) Outcome {
			d := hdrDescFromTok(toks[0])
			if op == 105 {
				return runMarshalTo(true, d, tokBytes(toks[1]), int(tokInt(toks[2])), tokBytes(toks[3]))
			}
			return runMarshalTo(false, d, nil, 0, tokBytes(toks[1]))
		},
	})
}
