package main

import (
	"bytes"
	"errors"
	"fmt"
	"io"

	"github.com/pion/rtp"
)

// C04: MarshalTo honours the destination buffer contract.
// opcodes: 105 desc payload padsize dst (Packet.MarshalTo) | 106 desc dst (Header.MarshalTo)

func runMarshalTo(pkt bool, d hdrDesc, payload []byte, pad int, dst []byte) Outcome {
	var o Outcome
	o.Tags = hdrTags(d)
	h, err := d.build()
	if err != nil {
		o.Impl = T(98, Unit)
		return o
	}
	p := rtp.Packet{Header: h, Payload: payload, PaddingSize: byte(pad)}
	var size, n int
	var ref []byte
	var merr, rerr error
	g, buf := newGuarded(dst)
	before := append([]byte{}, dst...)
	pn, what := catch(func() {
		if pkt {
			size = p.MarshalSize()
			ref, rerr = p.Marshal()
			n, merr = p.MarshalTo(buf)
		} else {
			size = h.MarshalSize()
			ref, rerr = h.Marshal()
			n, merr = h.MarshalTo(buf)
		}
	})
	if pn {
		o.Impl, o.Fail = PanicV(), "panic: "+what
		return o
	}
	o.Nontrivial = true
	rel := "exact"
	switch {
	case len(dst) < size:
		rel = "short"
	case len(dst) > size:
		rel = "oversized"
	}
	o.Tags = append(o.Tags, "dst "+rel, fmt.Sprintf("padding %v", pad > 0))
	if merr != nil {
		o.Impl = errV(merr)
	} else {
		o.Impl = OkV(L(B(buf), I(int64(n))))
	}
	// guards around the destination must be untouched in every case
	for i := 0; i < g.off; i++ {
		if g.whole[i] != 0xA5 || g.whole[len(g.whole)-1-i] != 0xA5 {
			o.Fail = "wrote outside the destination slice"
		}
	}
	if rerr != nil {
		o.Fail = "Marshal of a well-formed value failed"
		return o
	}
	if len(dst) < size {
		if merr == nil || !errors.Is(merr, io.ErrShortBuffer) {
			o.Fail = fmt.Sprintf("destination of %d bytes for %d: expected a short-buffer error, got %v", len(dst), size, merr)
		}
		return o
	}
	switch {
	case merr != nil:
		o.Fail = "sufficient destination rejected: " + merr.Error()
	case n != size:
		o.Fail = fmt.Sprintf("wrote %d bytes, MarshalSize is %d", n, size)
	case !bytes.Equal(buf[:n], ref):
		o.Fail = "bytes written differ from Marshal() (destination contents leaked through)"
	case !bytes.Equal(buf[n:], before[n:]):
		o.Fail = "bytes beyond MarshalSize were modified"
	}
	return o
}

func init() {
	register(&Prop{
		ID:       "C04",
		Rule:     "well-formed packets/headers as in C01 x destination lengths 0..size+3 (all of them for packets below 40 bytes, else size-2..size+2 plus random) x prior contents 0x00 / 0xEE / random; non-trivial = every buildable case",
		Quick:    5000,
		Thorough: 200000,
		Gen: func(r *RNG, tier string, n int, emit func(op int, toks ...Tok)) {
			dp := hdrDesc{version: 2, padding: true}
			emit(105, dp.tok(), TB([]byte{1, 2}), TI(4), TB(bytes.Repeat([]byte{0xEE}, 30)))
			emit(105, dp.tok(), TB([]byte{1, 2}), TI(4), TB(bytes.Repeat([]byte{0xEE}, 18)))
			emit(105, dp.tok(), TB([]byte{1, 2}), TI(4), TB(bytes.Repeat([]byte{0xEE}, 17)))
			for i := 0; i < n; {
				c := r.Fork(uint64(i))
				d, pl, pad := genWfPacket(c)
				pkt := c.Intn(3) != 0
				h, err := d.build()
				if err != nil {
					i++
					continue
				}
				size := h.MarshalSize()
				if pkt {
					size += len(pl) + pad
				} else {
					d.padding = c.Bool()
				}
				var lens []int
				if size < 40 {
					for l := 0; l <= size+3; l++ {
						lens = append(lens, l)
					}
				} else {
					lens = []int{0, size - 2, size - 1, size, size + 1, size + 2, c.Intn(size), size + c.Intn(50)}
				}
				for _, l := range lens {
					if l < 0 {
						continue
					}
					var dst []byte
					switch c.Intn(3) {
					case 0:
						dst = make([]byte, l)
					case 1:
						dst = bytes.Repeat([]byte{0xEE}, l)
					default:
						dst = c.Bytes(l)
					}
					if pkt {
						emit(105, d.tok(), TB(pl), TI(int64(pad)), TB(dst))
					} else {
						emit(106, d.tok(), TB(dst))
					}
					i++
				}
			}
		},
		Run: func(op int, toks []Tok) Outcome {
			d := hdrDescFromTok(toks[0])
			if op == 105 {
				return runMarshalTo(true, d, tokBytes(toks[1]), int(tokInt(toks[2])), tokBytes(toks[3]))
			}
			return runMarshalTo(false, d, nil, 0, tokBytes(toks[1]))
		},
	})
}
