package main

import "unsafe"

// overlaps reports whether the backing memory of a (over its full capacity) intersects the
// backing memory of b (over its full capacity).  Used to observe whether a returned or
// retained slice is a fresh copy or a window onto a caller buffer.
func overlaps(a, b []byte) bool {
	if cap(a) == 0 || cap(b) == 0 {
		return false
	}
	a0 := uintptr(unsafe.Pointer(unsafe.SliceData(a)))
	b0 := uintptr(unsafe.Pointer(unsafe.SliceData(b)))
	a1 := a0 + uintptr(cap(a))
	b1 := b0 + uintptr(cap(b))
	return a0 < b1 && b0 < a1
}

// guarded returns a copy of b placed inside a larger allocation with guard bytes on both
// sides, so that writes outside the slice and retained windows can be detected.
type guarded struct {
	whole []byte
	off   int
	n     int
}

const guardLen = 16

func newGuarded(b []byte) (*guarded, []byte) {
	if b == nil {
		return &guarded{}, nil
	}
	w := make([]byte, len(b)+2*guardLen)
	for i := range w {
		w[i] = 0xA5
	}
	copy(w[guardLen:], b)
	g := &guarded{whole: w, off: guardLen, n: len(b)}
	return g, w[guardLen : guardLen+len(b) : guardLen+len(b)+guardLen]
}

// intact reports whether the slice still holds want and the guards are untouched.
func (g *guarded) intact(want []byte) bool {
	if g.whole == nil {
		return true
	}
	for i := 0; i < g.off; i++ {
		if g.whole[i] != 0xA5 {
			return false
		}
	}
	for i := g.off + g.n; i < len(g.whole); i++ {
		if g.whole[i] != 0xA5 {
			return false
		}
	}
	for i := 0; i < g.n; i++ {
		if g.whole[g.off+i] != want[i] {
			return false
		}
	}
	return true
}

// scribble overwrites the caller-visible bytes (not the guards).
func (g *guarded) scribble(pat byte) {
	scribbleCalls++
	if !scribbleOn {
		return
	}
	for i := 0; i < g.n; i++ {
		g.whole[g.off+i] = pat ^ byte(i*7)
	}
}

// scribbleOn is switched off for the second execution of every case: the same history with and
// without the caller overwriting its buffers must give the same observable (an oracle for the
// "owned copies" clauses of C08/C09 that does not depend on the model).
var scribbleOn = true

var scribbleCalls int
