module verifharness

go 1.20

require github.com/pion/rtp v0.0.0

require github.com/pion/randutil v0.1.0 // indirect

replace github.com/pion/rtp => /repo
