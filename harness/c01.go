package main

import (
	"bytes"
	"fmt"

	"github.com/pion/rtp"
)

// C01: RTP packet encode/decode round trip is lossless.
// opcodes: 110 packet round trip (desc payload padsize) | 111 header round trip (desc)

func genExts(r *RNG, profileKind int) (uint16, []extD) {
	var exts []extD
	switch profileKind {
	case 1: // one-byte
		n := r.Pick(0, 1, 1, 2, 3, 5, 14)
		ids := perm(r, 14)
		for i := 0; i < n; i++ {
			l := r.Pick(1, 1, 2, 3, 4, 7, 16, 16)
			exts = append(exts, extD{uint8(ids[i] + 1), r.Bytes(l)})
		}
		return 0xBEDE, exts
	case 2: // two-byte
		n := r.Pick(0, 1, 2, 3, 6)
		ids := perm(r, 255)
		for i := 0; i < n; i++ {
			l := r.Pick(0, 0, 1, 2, 3, 17, 40, 255)
			exts = append(exts, extD{uint8(ids[i] + 1), r.Bytes(l)})
		}
		return twoByteProfile(r), exts
	default: // legacy: one id-0 value of whole words
		prof := legacyProfile(r)
		return prof, []extD{{0, r.Bytes(4 * r.Pick(0, 1, 1, 2, 5))}}
	}
}

func perm(r *RNG, n int) []int {
	p := make([]int, n)
	for i := range p {
		p[i] = i
	}
	for i := n - 1; i > 0; i-- {
		j := r.Intn(i + 1)
		p[i], p[j] = p[j], p[i]
	}
	return p
}

func genWfHeader(r *RNG) hdrDesc {
	d := hdrDesc{version: r.Intn(4), mk: r.Bool(), pt: r.Intn(128), seq: uint16(r.U64()), ts: uint32(r.U64()), ssrc: uint32(r.U64())}
	switch r.Intn(4) {
	case 0:
	case 1:
		d.csrc = u32s(r, 15)
	default:
		d.csrc = u32s(r, r.Intn(16))
	}
	kind := r.Intn(4)
	if kind != 0 {
		d.ext = true
		d.profile, d.exts = genExts(r, kind)
	}
	return d
}

func u32s(r *RNG, n int) []uint32 {
	out := make([]uint32, n)
	for i := range out {
		out[i] = uint32(r.U64())
	}
	return out
}

func genWfPacket(r *RNG) (hdrDesc, []byte, int) {
	d := genWfHeader(r)
	var payload []byte
	switch r.Intn(4) {
	case 0:
		payload = []byte{}
	case 1:
		payload = r.Bytes(1 + r.Intn(4))
	default:
		payload = r.Bytes(r.Intn(200))
	}
	pad := 0
	if r.Intn(3) == 0 {
		d.padding = true
		pad = r.Pick(1, 1, 2, 4, 255, 1+r.Intn(255))
	}
	return d, payload, pad
}

func hdrTags(d hdrDesc) []string {
	k := "noext"
	if d.ext {
		switch {
		case d.profile == 0xBEDE:
			k = "onebyte"
		case d.profile == 0x1000:
			k = "twobyte"
		case isTwoByte(d.profile):
			k = "twobyte with appbits"
		default:
			k = "legacy"
		}
	}
	return []string{"ext " + k, fmt.Sprintf("csrc %s", sizeBucket(len(d.csrc))), fmt.Sprintf("%s elems %d", k, len(d.exts))}
}

func runPktRoundtrip(d hdrDesc, payload []byte, pad int) Outcome {
	var o Outcome
	o.Tags = append(hdrTags(d), "payload "+sizeBucket(len(payload)), fmt.Sprintf("padding %v", pad > 0))
	o.Nontrivial = len(d.csrc) > 0 || d.ext || pad > 0
	h, err := d.build()
	if err != nil {
		o.Impl = T(98, Unit) // unbuildable through the public API
		o.Tags = append(o.Tags, "unbuildable")
		return o
	}
	p := rtp.Packet{Header: h, Payload: payload, PaddingSize: byte(pad)}
	var size int
	var bs []byte
	var merr error
	if pn, what := catch(func() { size = p.MarshalSize(); bs, merr = p.Marshal() }); pn {
		o.Impl, o.Fail = PanicV(), "Marshal panicked: "+what
		return o
	}
	if merr != nil {
		o.Impl = L(I(int64(size)), errV(merr), Unit)
		o.Fail = "Marshal of a well-formed packet failed: " + merr.Error()
		return o
	}
	var q rtp.Packet
	var uerr error
	if pn, what := catch(func() { uerr = q.Unmarshal(bs) }); pn {
		o.Impl, o.Fail = L(I(int64(size)), OkV(B(bs)), PanicV()), "Unmarshal panicked: "+what
		return o
	}
	if uerr != nil {
		o.Impl = L(I(int64(size)), OkV(B(bs)), errV(uerr))
		o.Fail = "Unmarshal of Marshal output failed: " + uerr.Error()
		return o
	}
	n := len(bs) - len(q.Payload) - int(q.PaddingSize)
	o.Impl = L(I(int64(size)), OkV(B(bs)), OkV(L(vPacket(&q), I(int64(n)))))
	switch {
	case len(bs) != size:
		o.Fail = fmt.Sprintf("Marshal produced %d bytes, MarshalSize says %d", len(bs), size)
	case !hdrEquivalent(&p.Header, &q.Header):
		o.Fail = "decoded header differs"
	case !bytes.Equal(p.Payload, q.Payload):
		o.Fail = "decoded payload differs"
	case p.PaddingSize != q.PaddingSize:
		o.Fail = "decoded padding size differs"
	}
	// "Unmarshal of those bytes yields an equal packet" whatever the receiver decoded before
	if o.Fail == "" {
		for k, w := range usedReceiverWires {
			var u rtp.Packet
			if pn, what := catch(func() { _ = u.Unmarshal(append([]byte{}, w...)); uerr = u.Unmarshal(bs) }); pn {
				o.Fail = "Unmarshal into a used packet panicked: " + what
				break
			}
			if uerr != nil || !hdrEquivalent(&p.Header, &u.Header) || !bytes.Equal(p.Payload, u.Payload) || p.PaddingSize != u.PaddingSize {
				o.Fail = fmt.Sprintf("decoded into a packet that had decoded %x before (receiver %d): differs from the packet marshalled (err %v)", w, k, uerr)
				break
			}
		}
	}
	return o
}

// wire images a receiver has decoded before the one under test: 15 CSRCs with a two-byte extension
// block and RTP padding; three CSRCs with a one-byte block; the bare fixed header
var usedReceiverWires = [][]byte{
	append(append(append([]byte{0xBF, 0xE0, 0, 9, 0, 0, 0, 7, 0, 0, 0, 5}, bytes.Repeat([]byte{0xC5, 0xC6, 0xC7, 0xC8}, 15)...),
		0x10, 0x00, 0, 3, 7, 3, 0x71, 0x72, 0x73, 200, 0, 9, 3, 0x91, 0x92, 0x93), 0xD1, 0xD2, 0xD3, 0, 0, 3),
	{0x93, 0x60, 0, 9, 0, 0, 0, 7, 0, 0, 0, 5, 0, 0, 0, 1, 0, 0, 0, 2, 0, 0, 0, 3, 0xBE, 0xDE, 0, 2, 0x32, 0xA1, 0xA2, 0xA3, 0xE0, 0xB1, 0, 0, 0xEE},
	{0x80, 0x60, 0, 9, 0, 0, 0, 7, 0, 0, 0, 5},
}

func runHdrRoundtrip(d hdrDesc) Outcome {
	var o Outcome
	o.Tags = hdrTags(d)
	o.Nontrivial = len(d.csrc) > 0 || d.ext
	h, err := d.build()
	if err != nil {
		o.Impl = T(98, Unit)
		return o
	}
	var size, n int
	var bs []byte
	var merr, uerr error
	var q rtp.Header
	if pn, what := catch(func() { size = h.MarshalSize(); bs, merr = h.Marshal() }); pn {
		o.Impl, o.Fail = PanicV(), "Marshal panicked: "+what
		return o
	}
	if merr != nil {
		o.Impl, o.Fail = L(I(int64(size)), errV(merr), Unit), "Marshal of a well-formed header failed"
		return o
	}
	if pn, what := catch(func() { n, uerr = q.Unmarshal(bs) }); pn {
		o.Impl, o.Fail = L(I(int64(size)), OkV(B(bs)), PanicV()), "Unmarshal panicked: "+what
		return o
	}
	if uerr != nil {
		o.Impl, o.Fail = L(I(int64(size)), OkV(B(bs)), errV(uerr)), "Unmarshal of Marshal output failed: "+uerr.Error()
		return o
	}
	o.Impl = L(I(int64(size)), OkV(B(bs)), OkV(L(vHeader(&q), I(int64(n)))))
	switch {
	case len(bs) != size || n != size:
		o.Fail = fmt.Sprintf("sizes differ: marshal %d, MarshalSize %d, n %d", len(bs), size, n)
	case !hdrEquivalent(&h, &q):
		o.Fail = "decoded header differs"
	}
	if o.Fail == "" {
		for k, w := range usedReceiverWires {
			var u rtp.Header
			var n2 int
			if pn, what := catch(func() { _, _ = u.Unmarshal(append([]byte{}, w...)); n2, uerr = u.Unmarshal(bs) }); pn {
				o.Fail = "Unmarshal into a used header panicked: " + what
				break
			}
			if uerr != nil || n2 != size || !hdrEquivalent(&h, &u) {
				o.Fail = fmt.Sprintf("decoded into a header that had decoded %x before (receiver %d): differs from the header marshalled (n %d, err %v)", w, k, n2, uerr)
				break
			}
		}
	}
	return o
}

func init() {
	register(&Prop{
		ID:       "C01",
		Rule:     "well-formed packets from an abstract description: version 0-3, PT 0-127, 0-15 CSRCs (15 over-weighted), no extension | one-byte (0-14 elements, values 1-16 bytes) | two-byte (values 0-255 bytes) | legacy (whole words incl. empty), payload empty/1-4/0-199 bytes, padding 1-255; plus the largest legal extension blocks (255 two-byte ids x 255 bytes; legacy values of 16383, 16384 and 65535 words); non-trivial = has CSRCs, an extension or padding",
		Quick:    6000,
		Thorough: 300000,
		Gen: func(r *RNG, tier string, n int, emit func(op int, toks ...Tok)) {
			// boundary: extension block ending exactly at the end of the packet, 16-byte value, 15 CSRCs, padding-only
			d := hdrDesc{version: 2, ext: true, profile: 0xBEDE, exts: []extD{{1, []byte{1, 2, 3}}}}
			emit(111, d.tok())
			emit(110, d.tok(), TB([]byte{}), TI(0))
			d2 := hdrDesc{version: 2, ext: true, profile: 0xBEDE, exts: []extD{{14, bytes.Repeat([]byte{7}, 16)}}, csrc: make([]uint32, 15), padding: true}
			emit(110, d2.tok(), TB([]byte{}), TI(255))
			d3 := hdrDesc{version: 3, ext: true, profile: 0x1000, exts: []extD{{255, []byte{}}, {1, bytes.Repeat([]byte{9}, 255)}}}
			emit(110, d3.tok(), TB([]byte{}), TI(0))
			emit(111, d3.tok())
			// the largest legal extension blocks: all 255 two-byte ids with 255-byte values (65535 bytes,
			// 16384 words), one id short of that, and legacy values of 16383 / 16384 / 65535 words -
			// the 16-bit length field counts words, so byte arithmetic must not be done in 16 bits
			full := hdrDesc{version: 2, ext: true, profile: 0x1000}
			for id := 1; id <= 255; id++ {
				full.exts = append(full.exts, extD{uint8(id), bytes.Repeat([]byte{byte(id)}, 255)})
			}
			emit(111, full.tok())
			emit(110, full.tok(), TB([]byte{1, 2, 3}), TI(0))
			almost := full
			almost.exts = full.exts[:254]
			emit(111, almost.tok())
			for _, words := range []int{16383, 16384, 65535} {
				lg := hdrDesc{version: 2, ext: true, profile: 0x1234, exts: []extD{{0, bytes.Repeat([]byte{0xAB}, 4*words)}}}
				emit(110, lg.tok(), TB([]byte{9}), TI(0))
			}
			for i := 0; i < n; i++ {
				c := r.Fork(uint64(i))
				if c.Intn(3) == 0 {
					emit(111, genWfHeader(c).tok())
				} else {
					d, pl, pad := genWfPacket(c)
					emit(110, d.tok(), TB(pl), TI(int64(pad)))
				}
			}
		},
		Run: func(op int, toks []Tok) Outcome {
			switch op {
			case 110:
				return runPktRoundtrip(hdrDescFromTok(toks[0]), tokBytes(toks[1]), int(tokInt(toks[2])))
			case 111:
				return runHdrRoundtrip(hdrDescFromTok(toks[0]))
			}
			panic("bad op")
		},
	})
}
