package main

import (
	"bytes"
	"errors"
	"fmt"
	"reflect"

	"github.com/pion/rtp"
	"github.com/pion/rtp/codecs/av1/obu"
)

// C19: Video Layers Allocation extension encodes per spec and round-trips.
// opcodes: 1901 [rid count hasres [[stream spatial [bitrates] w h f]...]]   VLA.Marshal
//          1902 [bufs...]                                                    VLA.Unmarshal into one receiver

func vlaTok(v rtp.VLA) Tok {
	ls := TList{}
	for _, l := range v.ActiveSpatialLayer {
		rs := TList{}
		for _, b := range l.TargetBitrates {
			rs = append(rs, TI(int64(b)))
		}
		ls = append(ls, TList{TI(int64(l.RTPStreamID)), TI(int64(l.SpatialID)), rs, TI(int64(l.Width)), TI(int64(l.Height)), TI(int64(l.Framerate))})
	}
	return TList{TI(int64(v.RTPStreamID)), TI(int64(v.RTPStreamCount)), TI(b2i(v.HasResolutionAndFramerate)), ls}
}

func vlaFromTok(t Tok) rtp.VLA {
	l := tokList(t)
	v := rtp.VLA{RTPStreamID: int(tokInt(l[0])), RTPStreamCount: int(tokInt(l[1])), HasResolutionAndFramerate: tokInt(l[2]) != 0}
	for _, x := range tokList(l[3]) {
		xl := tokList(x)
		sl := rtp.SpatialLayer{RTPStreamID: int(tokInt(xl[0])), SpatialID: int(tokInt(xl[1])), Width: int(tokInt(xl[3])), Height: int(tokInt(xl[4])), Framerate: int(tokInt(xl[5]))}
		for _, b := range tokList(xl[2]) {
			sl.TargetBitrates = append(sl.TargetBitrates, int(tokInt(b)))
		}
		v.ActiveSpatialLayer = append(v.ActiveSpatialLayer, sl)
	}
	return v
}

func vVLA(v *rtp.VLA) Val {
	ls := VList{}
	for _, l := range v.ActiveSpatialLayer {
		rs := VList{}
		for _, b := range l.TargetBitrates {
			rs = append(rs, I(int64(b)))
		}
		item := VList{I(int64(l.RTPStreamID)), I(int64(l.SpatialID)), rs}
		if v.HasResolutionAndFramerate {
			item = append(item, I(int64(l.Width)), I(int64(l.Height)), I(int64(l.Framerate)))
		}
		ls = append(ls, item)
	}
	return L(I(int64(v.RTPStreamID)), I(int64(v.RTPStreamCount)), Bool(v.HasResolutionAndFramerate), ls)
}

func vlaErrClass(err error) int {
	switch {
	case errors.Is(err, rtp.ErrVLAInvalidStreamCount):
		return 18
	case errors.Is(err, rtp.ErrVLAInvalidStreamID):
		return 19
	case errors.Is(err, rtp.ErrVLAInvalidSpatialID):
		return 20
	case errors.Is(err, rtp.ErrVLADuplicateSpatialID):
		return 21
	case errors.Is(err, rtp.ErrVLAInvalidTemporalLayer):
		return 22
	case errors.Is(err, rtp.ErrVLATooShort):
		return 23
	case errors.Is(err, obu.ErrFailedToReadLEB128):
		return 12
	}
	return 1
}

// the video-layers-allocation00 layout, written from the specification text
func vlaSpecEncode(v rtp.VLA) []byte {
	bm := make([]byte, v.RTPStreamCount)
	for _, l := range v.ActiveSpatialLayer {
		bm[l.RTPStreamID] |= 1 << uint(l.SpatialID)
	}
	shared := bm[0] != 0
	for _, b := range bm {
		if b != bm[0] {
			shared = false
		}
	}
	out := []byte{byte(v.RTPStreamID)<<6 | byte(v.RTPStreamCount-1)<<4}
	if shared {
		out[0] |= bm[0]
	} else {
		for s := 0; s < v.RTPStreamCount; s += 2 {
			b := bm[s] << 4
			if s+1 < v.RTPStreamCount {
				b |= bm[s+1]
			}
			out = append(out, b)
		}
	}
	// layers sorted by (stream, spatial): the caller provides them sorted
	var tl []byte
	for i, l := range v.ActiveSpatialLayer {
		if i%4 == 0 {
			tl = append(tl, 0)
		}
		tl[len(tl)-1] |= byte(len(l.TargetBitrates)-1) << uint(2*(3-i%4))
	}
	if len(tl) == 0 {
		tl = []byte{0}
	}
	out = append(out, tl...)
	for _, l := range v.ActiveSpatialLayer {
		for _, b := range l.TargetBitrates {
			x := uint64(b)
			for {
				c := byte(x & 0x7F)
				x >>= 7
				if x != 0 {
					out = append(out, c|0x80)
				} else {
					out = append(out, c)
					break
				}
			}
		}
	}
	if v.HasResolutionAndFramerate {
		for _, l := range v.ActiveSpatialLayer {
			out = append(out, byte((l.Width-1)>>8), byte(l.Width-1), byte((l.Height-1)>>8), byte(l.Height-1), byte(l.Framerate))
		}
	}
	return out
}

func genValidVLA(c *RNG) rtp.VLA {
	v := rtp.VLA{RTPStreamCount: 1 + c.Intn(4)}
	v.RTPStreamID = c.Intn(v.RTPStreamCount)
	v.HasResolutionAndFramerate = c.Bool()
	mask := c.Intn(1 << uint(4*v.RTPStreamCount))
	if c.Intn(4) == 0 { // same mask on every stream: the shared form
		m := c.Intn(16)
		mask = 0
		for s := 0; s < v.RTPStreamCount; s++ {
			mask |= m << uint(4*s)
		}
	}
	for s := 0; s < v.RTPStreamCount; s++ {
		for sp := 0; sp < 4; sp++ {
			if mask>>(uint(4*s+sp))&1 == 0 {
				continue
			}
			sl := rtp.SpatialLayer{RTPStreamID: s, SpatialID: sp}
			for i, n := 0, 1+c.Intn(4); i < n; i++ {
				var b int
				switch c.Intn(5) {
				case 0:
					b = c.Pick(0, 127, 128, 16383, 16384, 2097151, 2097152, 268435455, 268435456)
				case 1:
					b = int(c.U64() % (1 << 56))
				case 2:
					// "non-negative bitrates": every int value, the 9- and 10-byte LEB128 forms included
					b = c.Pick(1<<56-1, 1<<56, 1<<56+1, 1<<62, 1<<63-1, int(c.U64()>>1))
				default:
					b = c.Intn(100000)
				}
				sl.TargetBitrates = append(sl.TargetBitrates, b)
			}
			if v.HasResolutionAndFramerate {
				sl.Width, sl.Height, sl.Framerate = c.Pick(1, 65536, 1+c.Intn(65536)), c.Pick(1, 65536, 1+c.Intn(65536)), c.Intn(256)
			}
			v.ActiveSpatialLayer = append(v.ActiveSpatialLayer, sl)
		}
	}
	if len(v.ActiveSpatialLayer) == 0 {
		v.HasResolutionAndFramerate = false // no layer, no resolution record: the flag cannot be carried
	}
	return v
}

// vlaEqual: equal in every field.  A valid VLA without the resolution flag has no sizes and no frame rate (they are
// not on the wire; valid_vla asks for zeros there), so what a decode leaves in those fields - zeros on a fresh
// receiver - is part of "yields an equal VLA, also when the receiving value was used for an earlier decode": stale
// sizes from an earlier decode are a difference (seeded changes C19-r2m1, C19-r6m1).
func vlaEqual(a, b rtp.VLA) bool {
	if len(a.ActiveSpatialLayer) == 0 && len(b.ActiveSpatialLayer) == 0 {
		a.ActiveSpatialLayer, b.ActiveSpatialLayer = nil, nil
	}
	return reflect.DeepEqual(a, b)
}

func init() {
	register(&Prop{
		ID:       "C19",
		Rule:     "valid VLAs (1-4 streams, every subset of the 16 stream x spatial slots incl. the shared-bitmask shapes and streams without layers, 1-4 temporal layers, bitrates over all LEB128 size classes up to 2^63-1, resolution on/off) encoded by the library and by an independent rendering of the specification, decoded into a fresh and a used receiver; invalid VLAs (counts, ids, duplicates, temporal counts out of range); random, truncated and mutated byte strings for the decoder; non-trivial = at least one active layer",
		Quick:    5000,
		Thorough: 300000,
		Gen: func(r *RNG, tier string, n int, emit func(op int, toks ...Tok)) {
			two := rtp.VLA{RTPStreamCount: 2, ActiveSpatialLayer: []rtp.SpatialLayer{{RTPStreamID: 0, SpatialID: 0, TargetBitrates: []int{100}}, {RTPStreamID: 1, SpatialID: 1, TargetBitrates: []int{200}}}}
			emit(1901, vlaTok(two))
			only1 := rtp.VLA{RTPStreamCount: 2, RTPStreamID: 1, ActiveSpatialLayer: []rtp.SpatialLayer{{RTPStreamID: 1, SpatialID: 0, TargetBitrates: []int{7}}}}
			emit(1901, vlaTok(only1))
			emit(1902, TList{TBytes([]byte{0x01, 0x00, 0x64}), TBytes([]byte{0x01, 0x00, 0x64})})
			for i := 0; i < n; i++ {
				c := r.Fork(uint64(i))
				switch c.Intn(4) {
				case 0, 1:
					v := genValidVLA(c)
					if c.Intn(6) == 0 { // make it invalid
						switch c.Intn(5) {
						case 0:
							v.RTPStreamCount = c.Pick(0, 5, -1)
						case 1:
							v.RTPStreamID = c.Pick(-1, v.RTPStreamCount, 7)
						case 2:
							if len(v.ActiveSpatialLayer) > 0 {
								v.ActiveSpatialLayer[0].SpatialID = c.Pick(-1, 4)
							}
						case 3:
							if len(v.ActiveSpatialLayer) > 0 {
								v.ActiveSpatialLayer = append(v.ActiveSpatialLayer, v.ActiveSpatialLayer[0])
							}
						case 4:
							if len(v.ActiveSpatialLayer) > 0 {
								v.ActiveSpatialLayer[0].TargetBitrates = make([]int, c.Pick(0, 5))
							}
						}
					}
					emit(1901, vlaTok(v))
				default:
					k := 1 + c.Intn(3)
					bufs := TList{}
					for j := 0; j < k; j++ {
						var b []byte
						switch c.Intn(4) {
						case 0:
							b = c.Bytes(c.Intn(12))
						case 1:
							b = vlaSpecEncode(genValidVLA(c))
							b = b[:c.Intn(len(b)+1)]
						case 2:
							b = vlaSpecEncode(genValidVLA(c))
							b[c.Intn(len(b))] ^= 1 << uint(c.Intn(8))
						default:
							b = vlaSpecEncode(genValidVLA(c))
						}
						bufs = append(bufs, TBytes(b))
					}
					emit(1902, bufs)
				}
			}
		},
		Run: func(op int, toks []Tok) Outcome {
			var o Outcome
			if op == 1901 {
				v := vlaFromTok(toks[0])
				var b []byte
				var err error
				if pn, what := catch(func() { b, err = v.Marshal() }); pn {
					o.Impl, o.Fail = PanicV(), "Marshal panicked: "+what
					return o
				}
				valid := v.RTPStreamCount >= 1 && v.RTPStreamCount <= 4 && v.RTPStreamID >= 0 && v.RTPStreamID < v.RTPStreamCount
				seen := map[[2]int]bool{}
				for _, l := range v.ActiveSpatialLayer {
					if !valid {
						break
					}
					if l.RTPStreamID < 0 || l.RTPStreamID >= v.RTPStreamCount || l.SpatialID < 0 || l.SpatialID > 3 ||
						len(l.TargetBitrates) < 1 || len(l.TargetBitrates) > 4 || seen[[2]int{l.RTPStreamID, l.SpatialID}] {
						valid = false
					}
					seen[[2]int{l.RTPStreamID, l.SpatialID}] = true
				}
				o.Tags = []string{fmt.Sprintf("vla marshal valid=%v streams=%d layers=%d", valid, v.RTPStreamCount, minInt(len(v.ActiveSpatialLayer), 5))}
				if err != nil {
					o.Impl = ErrV(vlaErrClass(err))
					if valid {
						o.Fail = "Marshal rejected a valid VLA: " + err.Error()
					}
					return o
				}
				o.Impl = OkV(B(b))
				if !valid {
					o.Fail = "Marshal accepted an invalid VLA"
					return o
				}
				o.Nontrivial = len(v.ActiveSpatialLayer) > 0
				if want := vlaSpecEncode(v); !bytes.Equal(b, want) {
					o.Fail = fmt.Sprintf("layout differs from the specification: got %x want %x", b, want)
					return o
				}
				var fresh rtp.VLA
				used := rtp.VLA{RTPStreamCount: 4, HasResolutionAndFramerate: true, ActiveSpatialLayer: []rtp.SpatialLayer{{RTPStreamID: 3, SpatialID: 3, TargetBitrates: []int{1, 2, 3, 4}}}}
				for name, rcv := range map[string]*rtp.VLA{"fresh": &fresh, "used": &used} {
					n, e := rcv.Unmarshal(b)
					if e != nil || n != len(b) || !vlaEqual(*rcv, v) {
						o.Fail = fmt.Sprintf("Unmarshal into a %s receiver: n=%d of %d err=%v equal=%v", name, n, len(b), e, vlaEqual(*rcv, v))
					}
				}
				return o
			}
			var rcv rtp.VLA
			res := VList{}
			for i, t := range tokList(toks[0]) {
				in := tokBytes(t)
				g, buf := newGuarded(in)
				var n int
				var err error
				if pn, what := catch(func() { n, err = rcv.Unmarshal(buf) }); pn {
					res = append(res, PanicV())
					o.Fail = fmt.Sprintf("step %d: panic %s", i, what)
					rcv = rtp.VLA{}
					continue
				}
				if n > len(in) || n < 0 {
					o.Fail = fmt.Sprintf("step %d: reports %d bytes consumed of %d", i, n, len(in))
				}
				if !g.intact(in) {
					o.Fail = fmt.Sprintf("step %d: input modified", i)
				}
				if err != nil {
					// which error, and how far the decoder had come, is not the property's business (n <= len is, above);
					// the receiver is KEPT: whatever a rejected input left in it must not show in the next result
					res = append(res, T(1, Unit))
					o.Tags = append(o.Tags, "vla rejected")
					continue
				}
				o.Nontrivial = true
				o.Tags = append(o.Tags, "vla accepted")
				res = append(res, OkV(L(I(int64(n)), vVLA(&rcv))))
				var fresh rtp.VLA
				if n2, e2 := fresh.Unmarshal(buf); e2 != nil || n2 != n || !vlaEqual(fresh, rcv) {
					o.Fail = fmt.Sprintf("step %d: reused receiver differs from a fresh one", i)
				}
			}
			o.Impl = res
			return o
		},
	})
}
