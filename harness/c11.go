package main

import (
	"bytes"
	"fmt"

	"github.com/pion/rtp/codecs"
)

// C11: VP8 packetization is lossless and its descriptor decodes per RFC 7741.
// opcodes: 1101 enablePictureID warmup [[mtu frame]...]   one payloader: warmup unrecorded one-byte frames at MTU 10, then a history of calls
//          1102 [payloads...]                                one VP8Packet receiver
// The picture id of a fresh payloader is 0; histories long enough to cross 127->128 are generated
// with tiny frames.

type vp8Desc struct {
	n, s        bool
	pid         int
	x           bool
	i           bool
	m           bool
	pictureID   int
	l           bool
	tl0         int
	t, k        bool
	tid, keyidx int
	y           bool
}

// RFC 7741 section 4.2, written from the figure
func (d vp8Desc) encode() []byte {
	b0 := byte(d.pid & 7)
	if d.x {
		b0 |= 0x80
	}
	if d.n {
		b0 |= 0x20
	}
	if d.s {
		b0 |= 0x10
	}
	out := []byte{b0}
	if !d.x {
		return out
	}
	var xb byte
	if d.i {
		xb |= 0x80
	}
	if d.l {
		xb |= 0x40
	}
	if d.t {
		xb |= 0x20
	}
	if d.k {
		xb |= 0x10
	}
	out = append(out, xb)
	if d.i {
		if d.m {
			out = append(out, 0x80|byte(d.pictureID>>8), byte(d.pictureID))
		} else {
			out = append(out, byte(d.pictureID&0x7F))
		}
	}
	if d.l {
		out = append(out, byte(d.tl0))
	}
	if d.t || d.k {
		var b byte
		if d.t {
			b |= byte(d.tid&3) << 6
			if d.y {
				b |= 0x20
			}
		}
		if d.k {
			b |= byte(d.keyidx & 0x1F)
		}
		out = append(out, b)
	}
	return out
}

func genVp8Desc(c *RNG) vp8Desc {
	d := vp8Desc{n: c.Bool(), s: c.Bool(), pid: c.Intn(8), x: c.Intn(4) != 0}
	if d.x {
		d.i, d.l, d.t, d.k = c.Bool(), c.Bool(), c.Bool(), c.Bool()
		d.m = c.Bool()
		if d.m {
			d.pictureID = c.Pick(0, 127, 128, 32767, c.Intn(32768))
		} else {
			d.pictureID = c.Pick(0, 1, 127, c.Intn(128))
		}
		d.tl0 = c.Intn(256)
		d.tid, d.y, d.keyidx = c.Intn(4), c.Bool(), c.Intn(32)
	}
	return d
}

func b2u(b bool) uint8 {
	if b {
		return 1
	}
	return 0
}

func vVp8Pkt(p *codecs.VP8Packet) Val {
	pl := p.Payload
	if pl == nil {
		pl = []byte{}
	}
	return L(I(int64(p.X)), I(int64(p.N)), I(int64(p.S)), I(int64(p.PID)), I(int64(p.I)), I(int64(p.L)), I(int64(p.T)), I(int64(p.K)),
		I(int64(p.PictureID)), I(int64(p.TL0PICIDX)), I(int64(p.TID)), I(int64(p.Y)), I(int64(p.KEYIDX)), B(pl))
}

func runVp8History(enable bool, warm int, calls []Tok) Outcome {
	var o Outcome
	p := &codecs.VP8Payloader{EnablePictureID: enable}
	res := VList{}
	// warm-up: that many one-byte frames at MTU 10 whose output is not recorded, so that histories
	// can start next to the picture id wrap (the field is not settable through the API)
	for i := 0; i < warm; i++ {
		p.Payload(10, []byte{1})
	}
	pid := warm & 0x7FFF
	// calls outside the property's quantifier (an empty frame, an MTU not larger than the descriptor) since the
	// last frame that was judged: whether such a call uses up a picture id is the implementation's choice
	skipped := 0
	for ci, c := range calls {
		l := tokList(c)
		mtu, frame := uint16(tokInt(l[0])), tokBytes(l[1])
		v, frags, intact, fresh, panicked := runPayloader(p, mtu, frame)
		if skipped > 0 && enable && len(frags) > 0 {
			d := &codecs.VP8Packet{}
			if _, err := d.Unmarshal(frags[0]); err == nil && d.I == 1 {
				for k := 0; k <= skipped; k++ {
					if (pid+k)&0x7FFF == int(d.PictureID) {
						pid = (pid + k) & 0x7FFF
						break
					}
				}
			}
			skipped = 0
		}
		res = append(res, v)
		if panicked {
			o.Fail = fmt.Sprintf("call %d: panic", ci)
			break
		}
		if !intact {
			o.Fail = fmt.Sprintf("call %d: input modified", ci)
		}
		if !fresh {
			o.Fail = fmt.Sprintf("call %d: fragment aliases the input", ci)
		}
		hs := 1
		if enable {
			hs = 3
			if pid >= 128 {
				hs = 4
			}
		}
		if int(mtu) <= hs || len(frame) == 0 {
			// outside "every frame and every MTU larger than the descriptor": nothing is demanded of the output
			skipped++
			continue
		}
		o.Nontrivial = o.Nontrivial || len(frags) >= 2 || enable
		o.Tags = append(o.Tags, fmt.Sprintf("vp8 frags %s pidform %d", sizeBucket(len(frags)), hs))
		var cat []byte
		for fi, f := range frags {
			if len(f) > int(mtu) {
				o.Fail = fmt.Sprintf("call %d: fragment %d exceeds the MTU", ci, fi)
			}
			d := &codecs.VP8Packet{}
			body, err := d.Unmarshal(f)
			if err != nil {
				o.Fail = fmt.Sprintf("call %d: fragment %d does not parse: %v", ci, fi, err)
				continue
			}
			cat = append(cat, body...)
			if (d.S == 1) != (fi == 0) || d.IsPartitionHead(f) != (fi == 0) {
				o.Fail = fmt.Sprintf("call %d: S bit / partition head wrong on fragment %d", ci, fi)
			}
			if d.PID != 0 {
				o.Fail = fmt.Sprintf("call %d: partition index %d", ci, d.PID)
			}
			if enable {
				wantForm := 3
				if pid >= 128 {
					wantForm = 4
				}
				if d.I != 1 || int(d.PictureID) != pid || len(f)-len(body) != wantForm {
					o.Fail = fmt.Sprintf("call %d: fragment %d does not carry picture id %d in the %d-byte form (I=%d id=%d)", ci, fi, pid, wantForm, d.I, d.PictureID)
				}
			}
		}
		if !bytes.Equal(cat, frame) {
			o.Fail = fmt.Sprintf("call %d: payloads do not concatenate to the frame", ci)
		}
		pid = (pid + 1) & 0x7FFF
	}
	o.Impl = res
	return o
}

// vp8RefFields reads a VP8 payload descriptor the way RFC 7741 4.2 lays it out, independently of the
// library: a field whose flag is clear is absent and reads as zero, whatever the bits of a shared octet
// say ("MUST be ignored by receivers").
func vp8RefFields(b []byte) (f [13]int, ok bool) {
	if len(b) < 1 {
		return f, false
	}
	f[0], f[1], f[2], f[3] = int(b[0]>>7), int(b[0]>>5&1), int(b[0]>>4&1), int(b[0]&7) // X N S PID
	idx := 1
	if f[0] == 1 {
		if len(b) <= idx {
			return f, false
		}
		x := b[idx]
		idx++
		f[4], f[5], f[6], f[7] = int(x>>7), int(x>>6&1), int(x>>5&1), int(x>>4&1) // I L T K
		if f[4] == 1 {
			if len(b) <= idx {
				return f, false
			}
			if b[idx]&0x80 != 0 {
				if len(b) <= idx+1 {
					return f, false
				}
				f[8] = int(b[idx]&0x7F)<<8 | int(b[idx+1])
				idx += 2
			} else {
				f[8] = int(b[idx])
				idx++
			}
		}
		if f[5] == 1 {
			if len(b) <= idx {
				return f, false
			}
			f[9] = int(b[idx])
			idx++
		}
		if f[6] == 1 || f[7] == 1 {
			if len(b) <= idx {
				return f, false
			}
			if f[6] == 1 {
				f[10], f[11] = int(b[idx]>>6), int(b[idx]>>5&1)
			}
			if f[7] == 1 {
				f[12] = int(b[idx] & 0x1F)
			}
			idx++
		}
	}
	return f, true
}

func runVp8UnmarshalSeq(payloads [][]byte, descs []*vp8Desc, rests [][]byte) Outcome {
	var o Outcome
	d := &codecs.VP8Packet{}
	res := VList{}
	afterReject := false
	for i, in := range payloads {
		g, buf := newGuarded(in)
		var out []byte
		var err error
		if pn, what := catch(func() { out, err = d.Unmarshal(buf) }); pn {
			res = append(res, PanicV())
			o.Fail = fmt.Sprintf("step %d: panic %s", i, what)
			d = &codecs.VP8Packet{}
			continue
		}
		head := d.IsPartitionHead(buf)
		if !g.intact(in) {
			o.Fail = fmt.Sprintf("step %d: input modified", i)
		}
		if err != nil {
			res = append(res, T(1, L(I(int64(errClass(err))), Bool(head))))
			o.Tags = append(o.Tags, "vp8 rejected")
			afterReject = true
			continue // the receiver is kept: a rejected payload must not show in the next result
		}
		o.Nontrivial = true
		o.Tags = append(o.Tags, "vp8 accepted")
		if afterReject {
			o.Tags = append(o.Tags, "accepted into a receiver that had rejected an input")
		}
		res = append(res, OkV(L(vVp8Pkt(d), Bool(head))))
		if !bytes.Equal(out, d.Payload) {
			o.Fail = fmt.Sprintf("step %d: returned bytes differ from Payload field", i)
		}
		if ref, ok := vp8RefFields(in); ok {
			got := [13]int{int(d.X), int(d.N), int(d.S), int(d.PID), int(d.I), int(d.L), int(d.T), int(d.K), int(d.PictureID), int(d.TL0PICIDX), int(d.TID), int(d.Y), int(d.KEYIDX)}
			if got != ref && o.Fail == "" {
				o.Fail = fmt.Sprintf("step %d: descriptor %x decoded as X N S PID I L T K PictureID TL0PICIDX TID Y KEYIDX = %v, RFC 7741 reads %v", i, in[:minInt(len(in), 6)], got, ref)
			}
		}
		// reuse: a fresh receiver must agree
		f := &codecs.VP8Packet{}
		if _, e2 := f.Unmarshal(buf); e2 != nil || Render(vVp8Pkt(f)) != Render(vVp8Pkt(d)) {
			o.Fail = fmt.Sprintf("step %d: reused receiver differs from a fresh one", i)
		}
	}
	o.Impl = res
	return o
}

// op 1104: n s pid x i m pictureID l tl0 t k tid y keyidx xrest - a descriptor for the independent
// RFC 7741 encoder above; decoded fields are compared with the description, and every strict
// prefix of the descriptor must be rejected.
func (d vp8Desc) toks(rest []byte) []Tok {
	return []Tok{TI(b2i(d.n)), TI(b2i(d.s)), TI(int64(d.pid)), TI(b2i(d.x)), TI(b2i(d.i)), TI(b2i(d.m)), TI(int64(d.pictureID)),
		TI(b2i(d.l)), TI(int64(d.tl0)), TI(b2i(d.t)), TI(b2i(d.k)), TI(int64(d.tid)), TI(b2i(d.y)), TI(int64(d.keyidx)), TBytes(rest)}
}

func vp8DescFromToks(t []Tok) (vp8Desc, []byte) {
	b := func(i int) bool { return tokInt(t[i]) != 0 }
	return vp8Desc{n: b(0), s: b(1), pid: int(tokInt(t[2])), x: b(3), i: b(4), m: b(5), pictureID: int(tokInt(t[6])), l: b(7),
		tl0: int(tokInt(t[8])), t: b(9), k: b(10), tid: int(tokInt(t[11])), y: b(12), keyidx: int(tokInt(t[13]))}, tokBytes(t[14])
}

func runVp8Desc(d vp8Desc, rest []byte) Outcome {
	wire := d.encode()
	full := append(append([]byte{}, wire...), rest...)
	o := runVp8UnmarshalSeq([][]byte{full}, nil, nil)
	o.Nontrivial = true
	fail := func(format string, a ...interface{}) {
		if o.Fail == "" {
			o.Fail = fmt.Sprintf(format, a...)
		}
	}
	p := &codecs.VP8Packet{}
	out, err := p.Unmarshal(append([]byte{}, full...))
	if err != nil {
		fail("complete RFC 7741 descriptor %x followed by %d payload byte(s) rejected: %v", wire, len(rest), err)
	} else {
		want := vp8Desc{n: d.n, s: d.s, pid: d.pid, x: d.x}
		if d.x {
			want.i, want.l, want.t, want.k = d.i, d.l, d.t, d.k
			if d.i {
				want.m, want.pictureID = d.m, d.pictureID
			}
			if d.l {
				want.tl0 = d.tl0
			}
			if d.t {
				want.tid, want.y = d.tid, d.y
			}
			if d.k {
				want.keyidx = d.keyidx
			}
		}
		if p.X != b2u(want.x) || p.N != b2u(want.n) || p.S != b2u(want.s) || int(p.PID) != want.pid || p.I != b2u(want.i) || p.L != b2u(want.l) ||
			p.T != b2u(want.t) || p.K != b2u(want.k) || int(p.PictureID) != want.pictureID || int(p.TL0PICIDX) != want.tl0 ||
			int(p.TID) != want.tid || p.Y != b2u(want.y) || int(p.KEYIDX) != want.keyidx {
			fail("descriptor %x decoded to %s", wire, Render(vVp8Pkt(p)))
		}
		if !bytes.Equal(out, rest) {
			fail("bytes after the descriptor: got %x want %x", out, rest)
		}
	}
	trunc := VList{}
	for k := 0; k < len(wire); k++ {
		q := &codecs.VP8Packet{}
		var e2 error
		if pn, _ := catch(func() { _, e2 = q.Unmarshal(append([]byte{}, wire[:k]...)) }); pn {
			trunc = append(trunc, I(2))
			fail("prefix of %d bytes of descriptor %x: panic", k, wire)
		} else if e2 == nil {
			trunc = append(trunc, I(0))
			fail("descriptor %x cut to %d bytes accepted", wire, k)
		} else {
			trunc = append(trunc, I(1))
		}
	}
	o.Impl = L(B(full), o.Impl, trunc)
	return o
}

func init() {
	register(&Prop{
		ID:       "C11",
		Rule:     "payloader histories (1-6 frames of 1-200 bytes, MTU 1-65535 with mass on header size +0..+3 and on len/k, picture ids on/off; long histories of 1-byte frames crossing picture id 127->128 and, in thorough, 32767->0); descriptor cases from an RFC 7741 generator over all X/I/M/L/T/K combinations with boundary field values, followed by 0-20 payload bytes (often none), each also as a self-describing case whose decoded fields are compared with the description and whose every strict prefix must be rejected; non-trivial = a frame split in >= 2 fragments or picture ids enabled, or an accepted descriptor",
		Quick:    5000,
		Thorough: 200000,
		Gen: func(r *RNG, tier string, n int, emit func(op int, toks ...Tok)) {
			// crossing 127 -> 128 with tiny frames
			calls := TList{}
			for i := 0; i < 131; i++ {
				calls = append(calls, TList{TI(10), TBytes([]byte{byte(i), 1, 2})})
			}
			emit(1101, TI(1), TI(0), calls)
			// next to the 15-bit wrap: 32768 - k warm-up frames, then a short recorded history
			for _, w := range []int64{120, 32760, 32766, 32767, 32768, 65530} {
				calls = TList{}
				for i := 0; i < 12; i++ {
					calls = append(calls, TList{TI(int64(6 + i%3)), TBytes([]byte{byte(i), 7, 9})})
				}
				emit(1101, TI(1), TI(w), calls)
			}
			emit(1101, TI(0), TI(32767), calls)
			// frames longer than 65535 bytes (offsets must not be 16-bit)
			{
				c := r.Fork(6502)
				emit(1101, TI(1), TI(0), TList{TList{TI(1200), TBytes(c.Bytes(70000))}})
				emit(1101, TI(0), TI(0), TList{TList{TI(65535), TBytes(c.Bytes(65536 + 70))}})
				emit(1101, TI(0), TI(0), TList{TList{TI(700), TBytes(c.Bytes(65537))}, TList{TI(9), TBytes(c.Bytes(20))}})
			}
			if tier == "thorough" {
				calls = TList{}
				for i := 0; i < 32770; i++ {
					calls = append(calls, TList{TI(6), TBytes([]byte{byte(i)})})
				}
				emit(1101, TI(1), TI(0), calls)
			}
			for i := 0; i < n; i++ {
				c := r.Fork(uint64(i))
				if c.Intn(2) == 0 {
					enable := c.Bool()
					k := 1 + c.Intn(6)
					calls := TList{}
					for j := 0; j < k; j++ {
						l := 1 + c.Intn(200)
						if c.Intn(10) == 0 {
							l = 0
						}
						var mtu int
						switch c.Intn(4) {
						case 0:
							mtu = c.Intn(8)
						case 1:
							mtu = 3 + l/(1+c.Intn(4)) + c.Intn(3)
						case 2:
							mtu = 1 + c.Intn(65535)
						default:
							mtu = 4 + c.Intn(60)
						}
						var frame Tok = TBytes(c.Bytes(l))
						if c.Intn(30) == 0 {
							frame = TNil{}
						}
						calls = append(calls, TList{TI(int64(mtu)), frame})
					}
					emit(1101, TI(b2i(enable)), TI(0), calls)
				} else {
					k := 1 + c.Intn(4)
					ps := TList{}
					for j := 0; j < k; j++ {
						d := genVp8Desc(c)
						b := append(d.encode(), c.Bytes(c.Intn(20))...)
						switch c.Intn(6) {
						case 0: // truncation
							b = b[:c.Intn(len(b)+1)]
						case 1:
							b = c.Bytes(c.Intn(6))
						case 2:
							if c.Intn(4) == 0 {
								b = nil
							}
						}
						ps = append(ps, TB(b))
					}
					emit(1102, ps)
					// a self-describing descriptor case: all flag combinations, 0-3 bytes after it
					dd := genVp8Desc(c)
					emit(1104, dd.toks(c.Bytes(c.Pick(0, 0, 1, 2, 3)))...)
				}
			}
		},
		Run: func(op int, toks []Tok) Outcome {
			switch op {
			case 1101:
				return runVp8History(tokInt(toks[0]) != 0, int(tokInt(toks[1])), tokList(toks[2]))
			case 1104:
				d, rest := vp8DescFromToks(toks)
				return runVp8Desc(d, rest)
			case 1102:
				var ps [][]byte
				for _, t := range tokList(toks[0]) {
					ps = append(ps, tokBytes(t))
				}
				return runVp8UnmarshalSeq(ps, nil, nil)
			}
			panic("bad op")
		},
	})
}
