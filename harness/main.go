// Command verifharness drives pion/rtp (the tree named by the replace directive in go.mod)
// on generated cases and evaluates the property oracles on it.
//
//	verifharness run   -prop C16 -seed 1 -tier quick -out DIR   generate, run, write cases/impl/report
//	verifharness exec  -prop C16 -cases FILE -out DIR            run the literal cases of FILE
package main

import (
	"bufio"
	"crypto/sha256"
	"encoding/json"
	"flag"
	"fmt"
	"os"
	"path/filepath"
	"sort"
	"strings"
)

// Outcome of running one case on the implementation.
type Outcome struct {
	Impl       Val      // observable compared with the model
	Fail       string   // "" or why the property's own statement fails on this case
	Known      string   // "" or the id of the known finding that this failure is an instance of
	Tags       []string // distribution buckets (sizes, branches, error classes)
	Nontrivial bool
}

type Prop struct {
	ID   string
	Rule string // how cases are generated and what makes one non-trivial
	// Gen emits generated cases; n is the budget for this tier.
	Gen func(r *RNG, tier string, n int, emit func(op int, toks ...Tok))
	// Run executes one case on the implementation and evaluates the oracle.
	Run func(op int, toks []Tok) Outcome
	// Budget per tier.
	Quick, Thorough int
}

var registry = map[string]*Prop{}

func register(p *Prop) { registry[p.ID] = p }

type failure struct {
	Case  string `json:"case"`
	Why   string `json:"why"`
	Known string `json:"known,omitempty"`
	Impl  string `json:"impl"`
}

type report struct {
	Property     string         `json:"property"`
	Seed         uint64         `json:"seed"`
	Tier         string         `json:"tier"`
	Evaluations  int            `json:"evaluations"`
	Distinct     int            `json:"distinct"`
	Nontrivial   int            `json:"distinct_nontrivial"`
	Rule         string         `json:"rule"`
	Tags         map[string]int `json:"distribution"`
	Samples      []string       `json:"samples"`
	Failures     []failure      `json:"failures"`
	KnownHits    map[string]int `json:"known_hits"`
	HarnessPanic []string       `json:"harness_panics,omitempty"`
}

func runOne(p *Prop, line string) (out Outcome, err error) {
	defer func() {
		if e := recover(); e != nil {
			err = fmt.Errorf("harness panic on %q: %v", line, e)
		}
	}()
	op, toks, perr := ParseCase(line)
	if perr != nil {
		return Outcome{}, perr
	}
	return p.Run(op, toks), nil
}

// currentProp is the property whose check is running: C08 and C09 reuse the per-codec runners of other
// properties, and a clause that is theirs alone (e.g. "fragments are owned copies" for the payloaders C16 does
// not ask it of) is judged only under them
var currentProp string

func main() {
	if len(os.Args) < 2 {
		fmt.Fprintln(os.Stderr, "usage: verifharness run|exec ...")
		os.Exit(2)
	}
	mode := os.Args[1]
	fs := flag.NewFlagSet(mode, flag.ExitOnError)
	propID := fs.String("prop", "", "property id")
	seed := fs.Uint64("seed", 1, "seed")
	tier := fs.String("tier", "quick", "quick|thorough")
	out := fs.String("out", ".", "output directory")
	casesFile := fs.String("cases", "", "literal case file (exec mode, or prepended in run mode)")
	_ = fs.Parse(os.Args[2:])
	currentProp = *propID
	p := registry[*propID]
	if p == nil {
		fmt.Fprintln(os.Stderr, "unknown property", *propID)
		os.Exit(2)
	}
	if err := os.MkdirAll(*out, 0o755); err != nil {
		panic(err)
	}
	cf, _ := os.Create(filepath.Join(*out, "cases.txt"))
	imf, _ := os.Create(filepath.Join(*out, "impl.txt"))
	cw, iw := bufio.NewWriterSize(cf, 1<<20), bufio.NewWriterSize(imf, 1<<20)
	rep := report{Property: p.ID, Seed: *seed, Tier: *tier, Rule: p.Rule, Tags: map[string]int{}, KnownHits: map[string]int{}, Failures: []failure{}, Samples: []string{}}
	seen := map[[16]byte]bool{}
	unknownKept := 0
	handle := func(line string) {
		sc0 := scribbleCalls
		o, err := runOne(p, line)
		if err != nil {
			rep.HarnessPanic = append(rep.HarnessPanic, err.Error())
			return
		}
		if o.Fail == "" && scribbleCalls != sc0 {
			scribbleOn = false
			o2, err2 := runOne(p, line)
			scribbleOn = true
			if err2 == nil && Render(o2.Impl) != Render(o.Impl) {
				o.Fail = "overwriting the caller's input buffers after the calls returned changed a later result (state or output aliases an input buffer): without the overwrites the implementation returns " + Render(o2.Impl)
			}
		}
		rep.Evaluations++
		h := sha256.Sum256([]byte(line))
		var k [16]byte
		copy(k[:], h[:16])
		if !seen[k] {
			seen[k] = true
			rep.Distinct++
			if o.Nontrivial {
				rep.Nontrivial++
			}
		}
		for _, t := range o.Tags {
			rep.Tags[t]++
		}
		impl := Render(o.Impl)
		fmt.Fprintln(cw, line)
		fmt.Fprintln(iw, impl)
		if o.Fail != "" {
			if o.Known != "" {
				rep.KnownHits[o.Known]++
			}
			// failures that are exactly a listed finding are kept in small number only, so that they never
			// crowd out one that is not
			if (o.Known == "" && unknownKept < 200) || (o.Known != "" && rep.KnownHits[o.Known] <= 10) {
				if o.Known == "" {
					unknownKept++
				}
				rep.Failures = append(rep.Failures, failure{Case: line, Why: o.Fail, Known: o.Known, Impl: impl})
			}
		}
		if len(rep.Samples) < 5 && o.Nontrivial && len(line) < 300 {
			rep.Samples = append(rep.Samples, line+" => "+impl)
		}
	}
	if *casesFile != "" {
		f, err := os.Open(*casesFile)
		if err == nil {
			sc := bufio.NewScanner(f)
			sc.Buffer(make([]byte, 1<<20), 1<<26)
			for sc.Scan() {
				l := strings.TrimSpace(sc.Text())
				if l == "" || l[0] == '%' {
					continue
				}
				handle(l)
			}
			f.Close()
		}
	}
	if mode == "run" {
		n := p.Quick
		if *tier == "thorough" {
			n = p.Thorough
		}
		p.Gen(NewRNG(*seed), *tier, n, func(op int, toks ...Tok) { handle(CaseLine(op, toks...)) })
	}
	cw.Flush()
	iw.Flush()
	cf.Close()
	imf.Close()
	keys := make([]string, 0, len(rep.Tags))
	for k := range rep.Tags {
		keys = append(keys, k)
	}
	sort.Strings(keys)
	b, _ := json.MarshalIndent(rep, "", " ")
	_ = os.WriteFile(filepath.Join(*out, "report.json"), b, 0o644)
}
