package main

import (
	"bytes"
	"fmt"

	"github.com/pion/rtp/codecs"
	"github.com/pion/rtp/codecs/av1/frame"
	"github.com/pion/rtp/codecs/av1/obu"
	pkgframe "github.com/pion/rtp/pkg/frame"
	pkgobu "github.com/pion/rtp/pkg/obu"
)

// AV1 (C13, AV1 halves of C08/C09/C15).
// opcodes: 1301 mtu xobustream        AV1Payloader.Payload
//          1302 [payloads...]          one AV1Depacketizer receiver
//          1303 [payloads...]          AV1Packet per payload + one frame.AV1 assembler
//          1308 mtu [obus]             OBUs -> low-overhead stream -> AV1Payloader -> both receive paths -> OBUs
//          1304 v                      WriteToLeb128
//          1305 xbytes                 ReadLeb128
//          1306 xbytes                 ParseOBUHeader + Header.Marshal

type av1OBU struct {
	typ     int
	ext     bool
	tid     int
	sid     int
	res3    int
	payload []byte
	hasSize bool
}

func leb(v uint64) []byte {
	var out []byte
	for {
		c := byte(v & 0x7F)
		v >>= 7
		if v != 0 {
			out = append(out, c|0x80)
		} else {
			return append(out, c)
		}
	}
}

func (o av1OBU) header(withSize bool) []byte {
	h := byte(o.typ) << 3
	if o.ext {
		h |= 4
	}
	if withSize {
		h |= 2
	}
	out := []byte{h}
	if o.ext {
		out = append(out, byte(o.tid)<<5|byte(o.sid)<<3|byte(o.res3))
	}
	return out
}

func encodeOBUs(os []av1OBU) []byte {
	var b []byte
	for _, o := range os {
		b = append(b, o.header(o.hasSize)...)
		if o.hasSize {
			b = append(b, leb(uint64(len(o.payload)))...)
		}
		b = append(b, o.payload...)
	}
	return b
}

func expectedOBUs(os []av1OBU) []byte {
	var b []byte
	for _, o := range os {
		if o.typ == 2 || o.typ == 8 {
			continue
		}
		b = append(b, o.header(true)...)
		b = append(b, leb(uint64(len(o.payload)))...)
		b = append(b, o.payload...)
	}
	return b
}

// emitAv1LebEdges emits payloader cases in which the space left in the open packet, when a large
// OBU arrives, sits at a LEB128 size boundary (128 or 16384 bytes, -3..+6): the length-field budget
// of computeWriteSize has its special cases exactly there.  k small OBUs (1-3 bytes) precede it.
func emitAv1LebEdges(c *RNG, edges []int, emit func(op int, toks ...Tok)) {
	for _, edge := range edges {
		for k := 0; k <= 4; k++ {
			var os []av1OBU
			used := 1 // aggregation header
			for j := 0; j < k; j++ {
				o := av1OBU{typ: 6, hasSize: true, payload: c.Bytes(1 + c.Intn(3))}
				os = append(os, o)
				used += 1 + 1 + len(o.payload) // length field, header, payload
			}
			big := av1OBU{typ: c.Pick(3, 6), hasSize: true, payload: c.Bytes(edge + c.Pick(0, 1, 7, edge/4, edge))}
			os = append(os, big)
			if c.Bool() {
				os = append(os, av1OBU{typ: 6, hasSize: c.Bool(), payload: c.Bytes(1 + c.Intn(5))})
			}
			in := encodeOBUs(os)
			for d := -3; d <= 6; d++ {
				if mtu := used + edge + d; mtu >= 2 && mtu <= 65535 {
					emit(1301, TI(int64(mtu)), TBytes(in))
				}
			}
		}
	}
}

// genLayeredOBUs: small OBUs that would all fit one packet, with extension headers over two or three
// layer ids, extension-less OBUs and dropped ones (temporal delimiters, tile lists - with or without
// an extension header of their own) in between: the "different layers never share a packet" rule
// depends on what the payloader remembers across exactly such neighbours.
func genLayeredOBUs(c *RNG) []av1OBU {
	layers := [][2]int{{0, 0}, {1, 0}, {2, 1}, {1, 1}}
	var os []av1OBU
	for i, n := 0, 3+c.Intn(4); i < n; i++ {
		o := av1OBU{typ: c.Pick(3, 4, 5, 6, 6, 7, 15), hasSize: true, payload: c.Bytes(1 + c.Intn(4))}
		switch c.Intn(5) {
		case 0:
			o.typ = c.Pick(2, 8) // dropped by the payloader
			o.payload = c.Bytes(c.Intn(3))
		case 1:
			o.typ = 5 // metadata, usually without extension header
		}
		if c.Intn(4) != 0 {
			l := layers[c.Intn(len(layers))]
			o.ext, o.tid, o.sid = true, l[0], l[1]
		}
		os = append(os, o)
	}
	return os
}

// emitAv1Lossless payloads the OBUs, feeds the packets to AV1Depacketizer and to AV1Packet +
// frame.AV1, compares both with the OBUs, and emits the payloader case and the two receiver cases.
// op 1308: mtu [[typ ext tid sid res3 hasSize xpayload]...] - the lossless clause, self-describing:
// the OBUs are rendered in the low-overhead format (here and, for the model, by Spec/Av1Rtp.v),
// payloaded, and the packets are fed to AV1Depacketizer and to AV1Packet + frame.AV1; both must
// give back the OBUs (temporal delimiters and tile lists removed, size fields present).
func obusTok(os []av1OBU) TList {
	l := TList{}
	for _, o := range os {
		l = append(l, TList{TI(int64(o.typ)), TI(b2i(o.ext)), TI(int64(o.tid)), TI(int64(o.sid)), TI(int64(o.res3)), TI(b2i(o.hasSize)), TBytes(o.payload)})
	}
	return l
}

func obusFromTok(t Tok) []av1OBU {
	var os []av1OBU
	for _, x := range tokList(t) {
		l := tokList(x)
		os = append(os, av1OBU{typ: int(tokInt(l[0])), ext: tokInt(l[1]) != 0, tid: int(tokInt(l[2])), sid: int(tokInt(l[3])),
			res3: int(tokInt(l[4])), hasSize: tokInt(l[5]) != 0, payload: tokBytes(l[6])})
	}
	return os
}

func runAv1Lossless(mtu int, os []av1OBU) Outcome {
	in := encodeOBUs(os)
	// the library's own serialisation of an OBU (obu.OBU.Marshal) is the rendering used here
	var lib []byte
	for _, x := range os {
		h := obu.Header{Type: obu.Type(x.typ), HasSizeField: x.hasSize, Reserved1Bit: false}
		if x.ext {
			h.ExtensionHeader = &obu.ExtensionHeader{TemporalID: uint8(x.tid), SpatialID: uint8(x.sid), Reserved3Bits: uint8(x.res3)}
		}
		lib = append(lib, (&obu.OBU{Header: h, Payload: x.payload}).Marshal()...)
	}
	run := registry["C13"].Run
	o1 := run(1301, []Tok{TI(int64(mtu)), TBytes(in)})
	pk := (&codecs.AV1Payloader{}).Payload(uint16(mtu), append([]byte{}, in...))
	ps := TList{}
	for _, p := range pk {
		ps = append(ps, TBytes(p))
	}
	o2 := run(1302, []Tok{ps})
	o3 := run(1303, []Tok{ps})
	o := o1
	o.Impl = L(B(in), o1.Impl, o2.Impl, o3.Impl)
	o.Nontrivial = len(pk) >= 2
	for _, x := range []Outcome{o1, o2, o3} {
		if o.Fail == "" {
			o.Fail = x.Fail
		}
	}
	if o.Fail == "" && !bytes.Equal(lib, in) {
		o.Fail = fmt.Sprintf("obu.OBU.Marshal renders the OBUs as %x, the low-overhead format is %x", lib, in)
	}
	if o.Fail != "" || mtu < 2 {
		return o
	}
	d := &codecs.AV1Depacketizer{}
	var got []byte
	for _, p := range pk {
		out, err := d.Unmarshal(append([]byte{}, p...))
		if err != nil {
			o.Fail = "AV1Depacketizer rejected payloader output: " + err.Error()
			return o
		}
		got = append(got, out...)
	}
	if !bytes.Equal(got, expectedOBUs(os)) {
		o.Fail = fmt.Sprintf("AV1Depacketizer output differs from the OBUs that were payloaded: got %x want %x", got, expectedOBUs(os))
		return o
	}
	f := &frame.AV1{}
	var got2 []byte
	for _, p := range pk {
		ap := &codecs.AV1Packet{}
		if _, err := ap.Unmarshal(append([]byte{}, p...)); err != nil {
			o.Fail = "AV1Packet rejected payloader output: " + err.Error()
			return o
		}
		fr, _ := f.ReadFrames(ap)
		for _, x := range fr {
			h, err := obu.ParseOBUHeader(x)
			if err != nil {
				o.Fail = "frame assembler returned an unparsable OBU"
				return o
			}
			h.HasSizeField = true
			got2 = append(got2, h.Marshal()...)
			got2 = append(got2, leb(uint64(len(x)-h.Size()))...)
			got2 = append(got2, x[h.Size():]...)
		}
	}
	if !bytes.Equal(got2, expectedOBUs(os)) {
		o.Fail = "AV1Packet + frame.AV1 output differs from the OBUs that were payloaded"
	}
	return o
}

func emitAv1Lossless(c *RNG, mtu int, os []av1OBU, emit func(op int, toks ...Tok)) {
	emit(1308, TI(int64(mtu)), obusTok(os))
}

func genOBUs(c *RNG, mtu int) []av1OBU {
	n := 1 + c.Intn(8)
	sameLayer := c.Bool()
	var os []av1OBU
	for i := 0; i < n; i++ {
		o := av1OBU{typ: c.Intn(16), ext: c.Intn(3) == 0, hasSize: true, res3: c.Intn(8)}
		if c.Bool() {
			o.typ = c.Pick(1, 3, 4, 5, 6, 6, 7)
		}
		if o.ext && !sameLayer {
			o.tid, o.sid = c.Pick(0, 1, 2, 7, c.Intn(8)), c.Pick(0, 1, 3, c.Intn(4)) // all 3-bit temporal and 2-bit spatial ids
		}
		var sz int
		switch c.Intn(6) {
		case 0:
			sz = c.Intn(4)
		case 1:
			sz = 120 + c.Intn(20)
		case 2:
			sz = mtu - 4 + c.Intn(8)
			if sz < 0 {
				sz = 0
			}
		default:
			sz = c.Intn(2*mtu + 2)
		}
		o.payload = c.Bytes(sz)
		os = append(os, o)
	}
	if c.Intn(3) == 0 {
		os[n-1].hasSize = false
	}
	return os
}

// av1ErrClass: every rejection is one class - no property says WHICH error a malformed AV1 payload, OBU header
// or LEB128 field is refused with
func av1ErrClass(err error) int {
	switch {
	case err == nil:
		return 0
	}
	return 1
}

// aggregation-header rules of the AV1 RTP specification on a payloader output
func checkAV1Rules(pk [][]byte, mtu int) string {
	for i, p := range pk {
		if len(p) > mtu {
			return fmt.Sprintf("packet %d has %d bytes at MTU %d", i, len(p), mtu)
		}
		if len(p) < 2 {
			return fmt.Sprintf("packet %d is an aggregation header without an element (%d byte)", i, len(p))
		}
		z, y, w := p[0]&0x80 != 0, p[0]&0x40 != 0, int(p[0]>>4&3)
		if i == 0 && z {
			return "first packet has Z set"
		}
		if i > 0 && z != (pk[i-1][0]&0x40 != 0) {
			return fmt.Sprintf("packet %d: Z differs from the previous packet's Y", i)
		}
		if i == len(pk)-1 && y {
			return "last packet has Y set"
		}
		// walk the elements
		off, count := 1, 0
		var layers [][2]int
		for off < len(p) {
			count++
			var l int
			if w != 0 && count == w {
				l = len(p) - off
			} else {
				v, n, err := obu.ReadLeb128(p[off:])
				if err != nil {
					return fmt.Sprintf("packet %d: bad length field", i)
				}
				off += int(n)
				l = int(v)
			}
			if l == 0 || off+l > len(p) {
				return fmt.Sprintf("packet %d: element %d has no bytes or overruns the packet", i, count)
			}
			isContinuation := count == 1 && z
			if !isContinuation {
				if p[off]&0x02 != 0 {
					return fmt.Sprintf("packet %d: transmitted OBU header has the size flag set", i)
				}
				if p[off]&0x04 != 0 && l >= 2 {
					layers = append(layers, [2]int{int(p[off+1] >> 5), int(p[off+1] >> 3 & 3)})
				}
			}
			off += l
		}
		if w != 0 && count != w {
			return fmt.Sprintf("packet %d: W=%d but %d elements", i, w, count)
		}
		for _, l := range layers {
			if l != layers[0] {
				return fmt.Sprintf("packet %d mixes temporal/spatial ids %v and %v", i, layers[0], l)
			}
		}
	}
	return ""
}

func init() {
	run := func(op int, toks []Tok) Outcome {
		var o Outcome
		switch op {
		case 1301:
			mtu, in := uint16(tokInt(toks[0])), tokBytes(toks[1])
			v, frags, intact, fresh, panicked := runPayloader(&codecs.AV1Payloader{}, mtu, in)
			if panicked {
				o.Impl, o.Fail = v, "panic"
				return o
			}
			items := VList{}
			for _, f := range frags {
				items = append(items, B(f))
			}
			o.Impl = OkV(items)
			if !intact {
				o.Fail = "input modified"
			}
			if !fresh {
				o.Fail = "fragment aliases the input"
			}
			// C08's clauses at every MTU, 0 and 1 included (where nothing can be sent)
			for i, f := range frags {
				if len(f) > int(mtu) {
					o.Fail = fmt.Sprintf("fragment %d has %d bytes at MTU %d", i, len(f), mtu)
				} else if len(f) == 0 && len(in) > 0 {
					o.Fail = fmt.Sprintf("fragment %d is empty", i)
				}
			}
			if mtu >= 2 && o.Fail == "" {
				if why := checkAV1Rules(frags, int(mtu)); why != "" {
					o.Fail = why
				}
			}
			o.Nontrivial = len(frags) >= 2
			o.Tags = []string{"av1pay packets " + sizeBucket(len(frags))}
			return o
		case 1308:
			return runAv1Lossless(int(tokInt(toks[0])), obusFromTok(toks[1]))
		case 1307: // nhist [payloads]: history then an intact frame (C15)
			var ps [][]byte
			for _, t := range tokList(toks[1]) {
				ps = append(ps, tokBytes(t))
			}
			return runResync(registry["C13"].Run(1302, []Tok{toks[1]}), int(tokInt(toks[0])), ps, func() func([]byte) ([]byte, error) {
				d := &codecs.AV1Depacketizer{}
				return d.Unmarshal
			})
		case 1302:
			d := &codecs.AV1Depacketizer{}
			res := VList{}
			for i, t := range tokList(toks[0]) {
				in := tokBytes(t)
				g, buf := newGuarded(in)
				var out []byte
				var err error
				if pn, what := catch(func() { out, err = d.Unmarshal(buf) }); pn {
					res = append(res, L(PanicV(), Bool(d.Z), Bool(d.Y), Bool(d.N), Bool(false)))
					o.Fail = fmt.Sprintf("step %d: panic %s", i, what)
					break
				}
				var r Val
				if err != nil {
					r = ErrV(av1ErrClass(err))
					o.Tags = append(o.Tags, "av1 rejected")
				} else {
					r = OkV(B(nn(out)))
					o.Tags = append(o.Tags, "av1 accepted")
					if len(out) > 0 {
						o.Nontrivial = true
					}
				}
				if err != nil {
					// the flags of a receiver straight after a rejected payload are not compared (every later result is)
					res = append(res, L(r, Bool(false), Bool(false), Bool(false), Bool(d.IsPartitionHead(buf))))
				} else {
					res = append(res, L(r, Bool(d.Z), Bool(d.Y), Bool(d.N), Bool(d.IsPartitionHead(buf))))
				}
				if !g.intact(in) {
					o.Fail = fmt.Sprintf("step %d: input modified", i)
				}
				g.scribble(byte(0x77 + i)) // the retained fragment must be the depacketizer's own copy
			}
			o.Impl = res
			return o
		case 1303:
			f := &frame.AV1{}
			var _ pkgframe.AV1 = *f // the deprecated alias is the same type
			res := VList{}
			for i, t := range tokList(toks[0]) {
				in := tokBytes(t)
				p := &codecs.AV1Packet{}
				var rest []byte
				var err error
				var obus [][]byte
				if pn, what := catch(func() {
					rest, err = p.Unmarshal(in)
					if err == nil {
						obus, _ = f.ReadFrames(p)
					}
				}); pn {
					res = append(res, PanicV())
					o.Fail = fmt.Sprintf("step %d: panic %s", i, what)
					break
				}
				if err != nil {
					res = append(res, ErrV(av1ErrClass(err)))
					continue
				}
				o.Nontrivial = true
				es, os := VList{}, VList{}
				for _, e := range p.OBUElements {
					es = append(es, B(nn(e)))
				}
				for _, e := range obus {
					os = append(os, B(nn(e)))
				}
				res = append(res, OkV(L(B(nn(rest)), Bool(p.Z), Bool(p.Y), I(int64(p.W)), Bool(p.N), es, os)))
			}
			o.Impl = res
			return o
		case 1304:
			v := tokU64(toks[0])
			b := obu.WriteToLeb128(uint(v))
			o.Impl, o.Nontrivial = L(B(b), U(uint64(obu.EncodeLEB128(uint(v))))), true
			back, n, err := obu.ReadLeb128(append(append([]byte{}, b...), 0xAA))
			back2, _, _ := pkgobu.ReadLeb128(b)
			// every uint: the 9- and 10-byte encodings of values from 2^56 on included (D19 is repaired)
			if err != nil || uint64(back) != v || int(n) != len(b) || uint64(back2) != v {
				o.Fail = "ReadLeb128(WriteToLeb128(v)) differs"
			}
			if !bytes.Equal(b, leb(v)) {
				o.Fail = "not the LEB128 encoding"
			}
			// EncodeLEB128 packs the same bytes, most significant first, into one uint (fits below 2^56)
			if v < 1<<56 {
				packed, want := uint64(obu.EncodeLEB128(uint(v))), uint64(0)
				for _, x := range leb(v) {
					want = want<<8 | uint64(x)
				}
				if packed != want || uint64(pkgobu.EncodeLEB128(uint(v))) != want {
					o.Fail = fmt.Sprintf("EncodeLEB128(%d) = %#x, the LEB128 bytes packed big-endian are %#x", v, packed, want)
				}
			}
			return o
		case 1305:
			in := tokBytes(toks[0])
			v, n, err := obu.ReadLeb128(in)
			if err != nil {
				o.Impl = ErrV(av1ErrClass(err))
			} else {
				o.Impl, o.Nontrivial = OkV(L(U(uint64(v)), U(uint64(n)))), true
			}
			// reference reading of LEB128 (AV1 4.10.5 without its 8-byte limit): 7 bits per byte, least
			// significant group first, up to the first byte without the continuation bit; groups beyond
			// 64 bits carry nothing
			var want uint64
			end := -1
			overflow := false // a bit beyond the 64 a uint holds is set
			for i, x := range in {
				if 7*i < 64 {
					want |= uint64(x&0x7f) << uint(7*i)
					if 7*i+7 > 64 && x&0x7f>>uint(64-7*i) != 0 {
						overflow = true
					}
				} else if x&0x7f != 0 {
					overflow = true
				}
				if x&0x80 == 0 {
					end = i + 1
					break
				}
			}
			// what must be read: every encoding of up to ten bytes (the longest WriteToLeb128 produces, for a
			// value of 64 bits) that stays within 64 bits.  A longer (padded) encoding or one that overflows may
			// be refused; if it is accepted, the value must still be what the encoding says.
			must := end >= 0 && end <= 10 && !overflow
			switch {
			case end < 0 && err == nil:
				o.Fail = "an encoding without a final byte was accepted"
			case must && (err != nil || uint64(v) != want || int(n) != end):
				o.Fail = fmt.Sprintf("ReadLeb128(%x) = %d, %d bytes, err %v; the encoding says %d in %d bytes", in, v, n, err, want, end)
			case end >= 0 && !overflow && err == nil && (uint64(v) != want || int(n) != end):
				o.Fail = fmt.Sprintf("ReadLeb128(%x) = %d, %d bytes; the encoding says %d in %d bytes", in, v, n, want, end)
			}
			return o
		case 1306:
			in := tokBytes(toks[0])
			h, err := obu.ParseOBUHeader(in)
			if err != nil {
				o.Impl = ErrV(av1ErrClass(err))
				return o
			}
			o.Nontrivial = true
			var ext Val = T(1, Unit)
			if h.ExtensionHeader != nil {
				e := h.ExtensionHeader
				ext = T(0, L(I(int64(e.TemporalID)), I(int64(e.SpatialID)), I(int64(e.Reserved3Bits))))
			}
			m := h.Marshal()
			o.Impl = OkV(L(I(int64(h.Type)), ext, Bool(h.HasSizeField), Bool(h.Reserved1Bit), B(m)))
			if !bytes.Equal(m, in[:len(m)]) {
				o.Fail = "Marshal(Parse(b)) is not a prefix of b"
			}
			return o
		}
		panic("bad op")
	}
	register(&Prop{
		ID:       "C13",
		Rule:     "OBU sequences (1-8 OBUs, all 16 types with mass on 1/3/4/5/6/7, extension headers with equal or differing temporal ids 0-7 and spatial ids 0-3, sizes 0-3, MTU-4..MTU+3, 120-139, 0-2xMTU, size field omitted on the last OBU in a third of cases) x MTU 2-400 (and 0-1): payloader output checked against the aggregation rules, fed to AV1Depacketizer and to AV1Packet+frame.AV1 and compared with the OBUs; garbage and mutated payloads for both receivers; element lengths and obu_size fields of 2^56 to 2^64-1 (9- and 10-byte LEB128) in every entry point; payloader cases whose free packet space sits at the LEB128 size boundaries 128 and 16384 (-3..+6) behind 0-4 small OBUs; LEB128 at every 7-bit boundary +-2 and random 64-bit values; OBU header byte pairs on a 4096-point lattice (all 2^16 in thorough); non-trivial = >= 2 packets or an accepted payload",
		Quick:    4000,
		Thorough: 200000,
		Gen: func(r *RNG, tier string, n int, emit func(op int, toks ...Tok)) {
			for k := uint(7); k <= 63; k += 7 {
				for d := int64(-2); d <= 2; d++ {
					emit(1304, TU(uint64(int64(1)<<k+d)))
				}
			}
			emit(1304, TU(0))
			emit(1304, TU(4294967295))
			for _, pl := range av1HostilePayloads() {
				emit(1302, TList{TB(pl)})
				emit(1303, TList{TB(pl)})
				emit(1302, TList{TB([]byte{0x40, 0x32, 0x01}), TB(pl)}) // behind an open fragment
			}
			for _, st := range av1HostileStreams() {
				emit(1301, TI(100), TB(st))
				emit(1301, TI(5), TB(st))
			}
			step := 16
			if tier == "thorough" {
				step = 1
			}
			for h := 0; h < 65536; h += step {
				emit(1306, TBytes([]byte{byte(h >> 8), byte(h)}))
			}
			if tier == "thorough" {
				emitAv1LebEdges(r.Fork(424242), []int{128, 16384}, emit)
				emitAv1LebEdges(r.Fork(424243), []int{128, 16384}, emit)
			} else {
				emitAv1LebEdges(r.Fork(424242), []int{128, 16384}, emit)
			}
			// packets with several hundred elements (W = 0, every element length-prefixed): element
			// counters must not be 8 bits wide
			// OBUs longer than 65535 bytes and OBUs cut into more than 256 fragments
			for k, cfg := range [][2]int{{1200, 70000}, {40000, 70000}, {65535, 65536 + 40}, {3, 300}, {5, 4 * 270}} {
				c := r.Fork(uint64(7500 + k))
				os := []av1OBU{{typ: 6, hasSize: true, payload: c.Bytes(3)}, {typ: c.Pick(3, 6), hasSize: true, payload: c.Bytes(cfg[1])},
					{typ: 6, hasSize: c.Bool(), payload: c.Bytes(2)}}
				emitAv1Lossless(c, cfg[0], os, emit)
			}
			for _, k := range []int{255, 256, 257, 300, 600} {
				c := r.Fork(uint64(7000 + k))
				var os []av1OBU
				for j := 0; j < k; j++ {
					os = append(os, av1OBU{typ: c.Pick(3, 6), hasSize: true, payload: []byte{byte(j)}})
				}
				emitAv1Lossless(c, 1+3*k+c.Pick(0, 1, 200), os, emit)
			}
			for i := 0; i < n; i++ {
				c := r.Fork(uint64(i))
				switch c.Intn(6) {
				case 0, 1, 2:
					mtu := c.Pick(2, 3, 4, 5, 8, 16, 40, 130, 2+c.Intn(40), 2+c.Intn(400), c.Intn(2))
					os := genOBUs(c, mtu)
					if c.Intn(4) == 0 {
						mtu = c.Pick(40, 100, 1200)
						os = genLayeredOBUs(c)
					}
					emitAv1Lossless(c, mtu, os, emit)
				case 3:
					emit(1301, TI(int64(c.Intn(40))), TB(c.Bytes(c.Intn(30))))
				case 4:
					ps := TList{}
					for k, kn := 0, 1+c.Intn(5); k < kn; k++ {
						var b []byte
						switch c.Intn(4) {
						case 0:
							b = c.Bytes(c.Intn(10))
						case 1:
							b = append([]byte{byte(c.Intn(16)) << 4, byte(c.Intn(8)), byte(c.Pick(0x30, 0x32, 0x10, 0x18, 0x90, 0x34))}, c.Bytes(c.Intn(8))...)
						case 2:
							b = append([]byte{byte(c.Pick(0x00, 0x10, 0x20, 0x50, 0x90, 0xD0, 0x88))}, append(leb(uint64(c.Intn(6))), c.Bytes(c.Intn(10))...)...)
						default:
							if pk := (&codecs.AV1Payloader{}).Payload(uint16(5+c.Intn(20)), encodeOBUs(genOBUs(c, 12))); len(pk) > 0 {
								b = pk[c.Intn(len(pk))]
							}
							if c.Bool() && len(b) > 0 {
								b[c.Intn(len(b))] ^= 1 << uint(c.Intn(8))
							}
						}
						if c.Intn(25) == 0 {
							b = nil
						}
						ps = append(ps, TB(b))
					}
					emit(c.Pick(1302, 1303), ps)
				default:
					if c.Bool() {
						emit(1304, TU(c.U64()>>uint(c.Intn(64))))
					} else {
						b := leb(c.U64() >> uint(c.Intn(64)))
						if c.Intn(3) == 0 {
							b = b[:c.Intn(len(b)+1)]
						}
						if c.Intn(6) == 0 {
							// a long, non-canonical encoding: 8-14 continuation bytes in front of a final one
							b = nil
							for k, kn := 0, 8+c.Intn(7); k < kn; k++ {
								b = append(b, 0x80|byte(c.Intn(128)))
							}
							b = append(b, byte(c.Intn(128)))
						}
						emit(1305, TBytes(append(b, c.Bytes(c.Intn(3))...)))
					}
				}
			}
		},
		Run: run,
	})
}

// hostile LEB128 length fields: values from 2^56 up (9- and 10-byte encodings), which ReadLeb128
// returns in full; as an element length or an obu_size they exceed every buffer, do not fit an int
// from 2^63 on, and wrap a uint sum near 2^64
func av1HostileLebs() [][]byte {
	var out [][]byte
	for _, v := range []uint64{1 << 56, 1<<62 + 5, 1<<63 - 1, 1 << 63, 1<<63 + 11, 1<<64 - 1, 1<<64 - 2, 1<<64 - 9, 1<<64 - 12, 1<<64 - 40} {
		out = append(out, leb(v))
	}
	// non-canonical: ten continuation bytes and more
	out = append(out, []byte{0xff, 0xff, 0xff, 0xff, 0xff, 0xff, 0xff, 0xff, 0xff, 0xff, 0x01}, []byte{0x80, 0x80, 0x80, 0x80, 0x80, 0x80, 0x80, 0x80, 0x80, 0x80, 0x80, 0x7f})
	return out
}

// av1HostilePayloads are RTP payloads whose element length or obu_size field is such a value
func av1HostilePayloads() [][]byte {
	var out [][]byte
	for _, l := range av1HostileLebs() {
		for _, hdr := range []byte{0x00, 0x10, 0x20, 0x30, 0x80, 0x40, 0x08} {
			out = append(out, append(append([]byte{hdr}, l...), 0x30, 0x01))
			// a well-formed first element, then the hostile length
			out = append(out, append(append([]byte{hdr, 0x02, 0x30, 0x07}, l...), 0x30, 0x01, 0x02))
		}
		// an OBU element of consistent length whose own obu_size field is hostile (W=1: no length field)
		out = append(out, append(append([]byte{0x10, 0x32}, l...), 0xaa, 0xbb))
		out = append(out, append(append(append([]byte{0x00}, byte(1+len(l)+2)), 0x32), append(append([]byte{}, l...), 0xaa, 0xbb)...))
	}
	return out
}

// av1HostileStreams are payloader inputs (low-overhead OBU streams) with such an obu_size
func av1HostileStreams() [][]byte {
	var out [][]byte
	for _, l := range av1HostileLebs() {
		out = append(out, append(append([]byte{0x32}, l...), 0xaa, 0xbb))
		out = append(out, append(append([]byte{0x32, 0x01, 0x07, 0x36, 0x00, 0x00}, l...), 0xaa))
		out = append(out, append(append([]byte{0x0a, 0x01, 0x05, 0x32}, l...), 0xaa, 0xbb, 0xcc))
		// a temporal delimiter (skipped, not copied) whose obu_size steps the read offset backwards
		out = append(out, append(append([]byte{0x12}, l...), 0x32, 0x01, 0x07))
		out = append(out, append(append([]byte{0x0a}, l...), 0x01))
	}
	return out
}
