package main

import (
	"bytes"
	"fmt"

	"github.com/pion/rtp/codecs"
)

// H264 (C10, C15, and the H264 instances of C08/C09).
// opcodes: 1001 disableStapA [[mtu annexb]...]   one H264Payloader, a history of calls
//          1002 isAVC [payloads...]               one H264Packet receiver
//          1006 disableStapA isAVC [[mtu [[sc xnal]...]]...]  units -> Annex-B -> payloader -> H264Packet -> units (lossless clause)
//          1004 isAVC [plan items...]             independent RFC 6184 encoder -> one H264Packet receiver

// ---- generators -------------------------------------------------------------------------

// genNalBody returns n bytes that contain no start code and do not end in 0.
func genNalBody(c *RNG, n int) []byte {
	b := c.Bytes(n)
	for i := range b {
		if b[i] == 0 && c.Intn(4) != 0 { // keep a few single zeros, never two in a row
			b[i] = 1 + byte(c.Intn(255))
		}
		if i > 0 && b[i] == 0 && b[i-1] == 0 {
			b[i] = 7
		}
		if i > 1 && b[i] == 1 && b[i-1] == 0 && b[i-2] == 0 {
			b[i] = 9
		}
	}
	if n > 0 && b[n-1] == 0 {
		b[n-1] = 0x80
	}
	if n >= 6 && c.Intn(6) == 0 {
		// an emulation prevention sequence (00 00 03 xx), as real NAL units have them
		i := 1 + c.Intn(n-5)
		b[i], b[i+1], b[i+2] = 0, 0, 3
		if b[i+3] > 3 || i+3 == n-1 {
			b[i+3] = byte(c.Pick(1, 2, 3, 0x80))
		}
		if i > 0 && b[i-1] == 0 {
			b[i-1] = 9
		}
	}
	return b
}

func genH264Nal(c *RNG, typ int, size int) []byte {
	if size < 2 {
		size = 2
	}
	b := genNalBody(c, size)
	b[0] = byte(typ) | byte(c.Intn(4))<<5
	if c.Intn(8) == 0 {
		b[0] |= 0x80 // forbidden_zero_bit set (RFC 6184 5.3: a unit a MANE marked as damaged); it is part of the unit
	}
	if size >= 3 && b[1] == 0 && b[0] == 0 {
		b[1] = 5
	}
	return b
}

func annexB(c *RNG, nals [][]byte) []byte {
	var out []byte
	for _, n := range nals {
		if c.Bool() {
			out = append(out, 0, 0, 1)
		} else {
			out = append(out, 0, 0, 0, 1)
		}
		out = append(out, n...)
	}
	return out
}

func frameAs(avc bool, nals [][]byte) []byte {
	var out []byte
	for _, n := range nals {
		if avc {
			out = append(out, byte(len(n)>>24), byte(len(n)>>16), byte(len(n)>>8), byte(len(n)))
		} else {
			out = append(out, 0, 0, 0, 1)
		}
		out = append(out, n...)
	}
	return out
}

// a well-shaped access unit: SPS immediately followed by PPS, then at least one emitted unit
func genAccessUnit(c *RNG, mtu int) (nals [][]byte) {
	size := func() int {
		switch c.Intn(5) {
		case 0:
			return 2 + c.Intn(4)
		case 1:
			return mtu - 2 + c.Intn(5)
		case 2:
			return 2*mtu - 3 + c.Intn(6)
		default:
			return 2 + c.Intn(4*mtu+4)
		}
	}
	other := func() int {
		for {
			t := 1 + c.Intn(23)
			if t != 7 && t != 8 && t != 9 && t != 12 {
				return t
			}
		}
	}
	k := 1 + c.Intn(4)
	for i := 0; i < k; i++ {
		if c.Intn(5) == 0 {
			nals = append(nals, genH264Nal(c, c.Pick(9, 12), 2+c.Intn(5)))
		}
		switch c.Intn(12) {
		case 0, 1, 2, 3:
			nals = append(nals, genH264Nal(c, 7, 2+c.Intn(12)), genH264Nal(c, 8, 2+c.Intn(6)))
		case 4: // several picture parameter sets behind one SPS
			nals = append(nals, genH264Nal(c, 7, 2+c.Intn(12)), genH264Nal(c, 8, 2+c.Intn(6)), genH264Nal(c, 8, 2+c.Intn(6)))
		case 5: // a parameter set on its own
			nals = append(nals, genH264Nal(c, c.Pick(7, 8), 2+c.Intn(8)))
		case 6: // PPS first, or the SPS repeated
			nals = append(nals, genH264Nal(c, c.Pick(7, 8), 2+c.Intn(6)), genH264Nal(c, 7, 2+c.Intn(6)), genH264Nal(c, 8, 2+c.Intn(6)))
		}
		nals = append(nals, genH264Nal(c, other(), size()))
	}
	if c.Intn(5) == 0 {
		// the call ends with parameter sets: they are held across the call boundary ("SPS/PPS pairs across calls")
		nals = append(nals, genH264Nal(c, 7, 2+c.Intn(12)))
		if c.Bool() {
			nals = append(nals, genH264Nal(c, 8, 2+c.Intn(6)))
		}
	}
	return nals
}

// ---- runners ------------------------------------------------------------------------------

type h264Expect struct {
	nalsPerCall [][][]byte // nil when the case is not a generated well-shaped stream
}

func runH264History(disable bool, calls []Tok) Outcome {
	var o Outcome
	p := &codecs.H264Payloader{DisableStapA: disable}
	res := VList{}
	var guards []*guarded
	var prevInputs [][]byte
	for ci, c := range calls {
		l := tokList(c)
		mtu, in := uint16(tokInt(l[0])), tokBytes(l[1])
		g, buf := newGuarded(in)
		guards = append(guards, g)
		prevInputs = append(prevInputs, in)
		var frags [][]byte
		if pn, what := catch(func() { frags = p.Payload(mtu, buf) }); pn {
			res = append(res, PanicV())
			o.Fail = fmt.Sprintf("call %d: panic %s", ci, what)
			break
		}
		items := VList{}
		for fi, f := range frags {
			own := true
			for _, gg := range guards {
				if overlaps(f, gg.whole) {
					own = false
				}
			}
			items = append(items, L(Bool(own), B(f)))
			if !own {
				o.Fail = fmt.Sprintf("call %d: fragment %d aliases a caller buffer", ci, fi)
			}
			if len(f) > int(mtu) {
				o.Fail = fmt.Sprintf("call %d: fragment %d has %d bytes, MTU %d", ci, fi, len(f), mtu)
			}
			if len(f) == 0 {
				o.Fail = fmt.Sprintf("call %d: empty fragment", ci)
			}
		}
		res = append(res, OkV(items))
		if !g.intact(in) {
			o.Fail = fmt.Sprintf("call %d: input modified", ci)
		}
		// the caller now reuses its buffer: anything the payloader kept must be its own copy
		g.scribble(byte(0xC3 + ci))
		o.Tags = append(o.Tags, "h264pay frags "+sizeBucket(len(frags)))
		if len(frags) >= 2 {
			o.Nontrivial = true
		}
	}
	o.Impl = res
	return o
}

func runH264UnmarshalSeq(avc bool, payloads [][]byte) Outcome {
	var o Outcome
	d := &codecs.H264Packet{IsAVC: avc}
	res := VList{}
	var guards []*guarded
	for i, in := range payloads {
		g, buf := newGuarded(in)
		guards = append(guards, g)
		var out []byte
		var err error
		if pn, what := catch(func() { out, err = d.Unmarshal(buf) }); pn {
			res = append(res, PanicV())
			o.Fail = fmt.Sprintf("step %d: panic %s", i, what)
			break
		}
		head := d.IsPartitionHead(buf)
		_ = d.IsPartitionTail(true, buf)
		if !g.intact(in) {
			o.Fail = fmt.Sprintf("step %d: input modified", i)
		}
		if err != nil {
			res = append(res, T(1, L(I(int64(errClass(err))), Bool(head))))
			o.Tags = append(o.Tags, "h264 rejected")
		} else {
			if out == nil {
				out = []byte{}
			}
			res = append(res, OkV(L(B(out), Bool(head))))
			o.Tags = append(o.Tags, "h264 accepted")
			if len(out) > 0 {
				o.Nontrivial = true
			}
		}
		g.scribble(byte(0x5A + i)) // retained fragment state must not alias this buffer
	}
	o.Impl = res
	return o
}

// oracle for C10: payloader output of well-shaped access units, fed to H264Packet, reproduces the units
// (AUD and filler dropped; SPS and PPS held until the next other unit and then sent first), every
// payload is a single NAL unit, a STAP-A or an FU-A fragment, and IsPartitionHead is the S bit on FU-A.
func h264LosslessOracle(disable, avc bool, mtus []int, streams [][]byte, nalsPerCall [][][]byte) string {
	p := &codecs.H264Payloader{DisableStapA: disable}
	d := &codecs.H264Packet{IsAVC: avc}
	var got []byte
	var expect [][]byte
	// the property's reading of the hold-back rule: parameter sets may be held until the next other unit
	// (or a later call), but then EVERY one of them arrives, in the order it was given, in front of it
	var pending [][]byte
	for ci, nals := range nalsPerCall {
		frags := p.Payload(uint16(mtus[ci]), append([]byte{}, streams[ci]...))
		for _, n := range nals {
			t := n[0] & 0x1F
			switch {
			case t == 9 || t == 12:
			case (t == 7 || t == 8) && !disable:
				pending = append(pending, n)
			default:
				expect = append(expect, pending...)
				pending = nil
				expect = append(expect, n)
			}
		}
		for fi, f := range frags {
			out, err := d.Unmarshal(f)
			if err != nil {
				return fmt.Sprintf("call %d: payload %d rejected by H264Packet: %v", ci, fi, err)
			}
			got = append(got, out...)
			t := f[0] & 0x1F
			head := d.IsPartitionHead(f)
			switch {
			case t >= 1 && t <= 23, t == 24:
				if !head {
					return "IsPartitionHead false on a single/STAP-A payload"
				}
			case t == 28:
				s, e := f[1]&0x80 != 0, f[1]&0x40 != 0
				if head != s {
					return "IsPartitionHead differs from the S bit on a FU-A payload"
				}
				if s && e {
					return "FU-A fragment with both S and E"
				}
			default:
				return fmt.Sprintf("payload type %d emitted", t)
			}
		}
	}
	// parameter sets still held at the end of the history may or may not have been sent yet
	if want := frameAs(avc, expect); !bytes.Equal(got, want) && !bytes.Equal(got, frameAs(avc, append(append([][]byte{}, expect...), pending...))) {
		return fmt.Sprintf("depacketized stream differs from the NAL units that were payloaded: got %x, want %x", got, want)
	}
	return ""
}

// op 1006: disable avc [[mtu [[sc xnal]...]]...] - the lossless clause, self-describing
func unitStreams(calls []Tok) (streams [][]byte, mtus []int, nalsPerCall [][][]byte) {
	for _, c := range calls {
		l := tokList(c)
		var in []byte
		var nals [][]byte
		for _, u := range tokList(l[1]) {
			ul := tokList(u)
			if tokInt(ul[0]) == 3 {
				in = append(in, 0, 0, 1)
			} else {
				in = append(in, 0, 0, 0, 1)
			}
			n := tokBytes(ul[1])
			in = append(in, n...)
			nals = append(nals, n)
		}
		streams = append(streams, in)
		mtus = append(mtus, int(tokInt(l[0])))
		nalsPerCall = append(nalsPerCall, nals)
	}
	return
}

func unitCallsTok(c *RNG, mtu int, calls [][][]byte) TList {
	return unitCallsTokMTU(c, mtu, calls, true)
}

// unitCallsTokMTU: with vary off every call uses exactly the MTU given (the extreme-size cases aim
// at one MTU each; a 64 KiB unit at MTU 5 costs the list-based model minutes and gigabytes)
func unitCallsTokMTU(c *RNG, mtu int, calls [][][]byte, vary bool) TList {
	cs := TList{}
	for _, nals := range calls {
		us := TList{}
		for _, n := range nals {
			us = append(us, TList{TI(int64(c.Pick(3, 4))), TBytes(n)})
		}
		m := mtu
		if c.Intn(4) == 0 && vary { // the MTU may change from call to call
			m = c.Pick(3, 4, 5, 16, 100, 1200, 3+c.Intn(60))
		}
		cs = append(cs, TList{TI(int64(m)), us})
	}
	return cs
}

func runH264Lossless(disable, avc bool, calls []Tok) Outcome {
	streams, mtus, nalsPerCall := unitStreams(calls)
	hist := TList{}
	for i := range streams {
		hist = append(hist, TList{TI(int64(mtus[i])), TBytes(streams[i])})
	}
	o := runH264History(disable, hist)
	p := &codecs.H264Payloader{DisableStapA: disable}
	var frags [][]byte
	for i := range streams {
		frags = append(frags, p.Payload(uint16(mtus[i]), append([]byte{}, streams[i]...))...)
	}
	seq := runH264UnmarshalSeq(avc, frags)
	o.Impl = L(o.Impl, seq.Impl)
	o.Nontrivial = o.Nontrivial || seq.Nontrivial
	if o.Fail == "" {
		o.Fail = seq.Fail
	}
	if o.Fail == "" {
		o.Fail = h264ShapeOracle(frags)
	}
	carriable := true
	for _, nals := range nalsPerCall {
		carriable = carriable && annexBCarriable(nals)
	}
	if o.Fail == "" && carriable {
		o.Fail = h264LosslessOracle(disable, avc, mtus, streams, nalsPerCall)
	}
	return o
}

// h264ShapeOracle: the property's second sentence on a payloader output, read from the bytes - every payload is a
// single NAL unit (type 1-23), a STAP-A (24) or belongs to a run of at least two FU-A payloads (28) that starts
// with S, ends with E, never carries both, and has the same indicator (F, NRI) and the same type on every fragment
func h264ShapeOracle(frags [][]byte) string {
	inRun := false
	var ind, ty byte
	for i, f := range frags {
		if len(f) == 0 {
			return fmt.Sprintf("payload %d is empty", i)
		}
		switch t := f[0] & 0x1F; {
		case t >= 1 && t <= 24:
			if inRun {
				return fmt.Sprintf("payload %d (type %d) inside an FU-A run that has not ended", i, t)
			}
		case t == 28:
			if len(f) < 2 {
				return fmt.Sprintf("payload %d: FU-A without its header", i)
			}
			s, e := f[1]&0x80 != 0, f[1]&0x40 != 0
			switch {
			case s && e:
				return fmt.Sprintf("payload %d: FU-A with S and E (a unit in one fragment)", i)
			case s && inRun:
				return fmt.Sprintf("payload %d: S inside a run", i)
			case s:
				inRun, ind, ty = true, f[0], f[1]&0x1F
			case !inRun:
				return fmt.Sprintf("payload %d: FU-A fragment without a start", i)
			case f[0] != ind || f[1]&0x1F != ty:
				return fmt.Sprintf("payload %d: indicator %02x / type %d differ from the start fragment's %02x / %d", i, f[0], f[1]&0x1F, ind, ty)
			case e:
				inRun = false
			}
		default:
			return fmt.Sprintf("payload %d has type %d", i, t)
		}
	}
	if inRun {
		return "an FU-A run without an end fragment"
	}
	return ""
}

// emitH264Extremes: sizes at which narrow integer arithmetic would wrap - a unit cut into more than
// 256 (and more than 512) FU-A fragments, and held SPS+PPS pairs whose STAP-A size crosses 2^16.
// The payloader output is also fed to H264Packet (op 1002) and compared with the units.
func emitH264Extremes(c *RNG, emit func(op int, toks ...Tok)) {
	run := func(disable bool, mtu int, nals [][]byte) {
		emit(1006, TI(b2i(disable)), TI(b2i(c.Bool())), unitCallsTokMTU(c, mtu, [][][]byte{nals}, false))
	}
	run(false, 3, [][]byte{genH264Nal(c, 5, 2+257)})
	run(false, 4, [][]byte{genH264Nal(c, 1, 2+2*520)})
	run(true, 5, [][]byte{genH264Nal(c, 7, 800), genH264Nal(c, 5, 3+3*256)})
	run(false, 1200, [][]byte{genH264Nal(c, 7, 40000), genH264Nal(c, 8, 25631), genH264Nal(c, 5, 30)})
	run(false, 65535, [][]byte{genH264Nal(c, 7, 32768), genH264Nal(c, 8, 32763), genH264Nal(c, 1, 10)})
	run(false, 200, [][]byte{genH264Nal(c, 7, 65530), genH264Nal(c, 8, 2), genH264Nal(c, 5, 9)})
	// a reassembled unit is not bounded by the RTP payload size: 2^16 bytes and more, in both framings
	// (the AVC length prefix has four bytes)
	for _, avc := range []bool{false, true} {
		emit(1006, TI(0), TI(b2i(avc)), unitCallsTokMTU(c, 1200, [][][]byte{{genH264Nal(c, 5, 65536), genH264Nal(c, 1, 70001)}}, false))
		emit(1006, TI(0), TI(b2i(avc)), unitCallsTokMTU(c, 65535, [][][]byte{{genH264Nal(c, 1, 65535), genH264Nal(c, 5, 65537)}}, false))
	}
}

// ---- independent RFC 6184 encoder (decoder clause of C10) ---------------------------------
// plan item tokens: [0 xnal] single NAL unit packet, [1 nri [xunit...]] STAP-A, [2 h [xchunk...]] FU-A
// (unit = h followed by the chunks; one FU-A packet per chunk, S on the first, E on the last)

func genRfc6184Plan(c *RNG) TList {
	plan := TList{}
	other := func() byte {
		for {
			t := 1 + c.Intn(23)
			f := byte(0)
			if c.Intn(8) == 0 {
				f = 0x80 // F set: "the information of the NAL unit type octet ... is conveyed in the F and NRI fields of the FU indicator"
			}
			return byte(t) | byte(c.Intn(4))<<5 | f
		}
	}
	for k, kn := 0, 1+c.Intn(5); k < kn; k++ {
		switch c.Intn(3) {
		case 0:
			n := c.Bytes(1 + c.Intn(12))
			n[0] = other()
			plan = append(plan, TList{TI(0), TBytes(n)})
		case 1:
			us := TList{}
			for u, un := 0, 1+c.Intn(4); u < un; u++ {
				b := c.Bytes(1 + c.Intn(8))
				b[0] = other()
				us = append(us, TBytes(b))
			}
			plan = append(plan, TList{TI(1), TI(int64(c.Intn(8)) << 5), us})
		default:
			cs := TList{}
			for f, fn := 0, 2+c.Intn(4); f < fn; f++ {
				l := c.Intn(6)
				if c.Intn(3) == 0 {
					l = 0 // "An FU payload MAY have any number of octets and MAY be empty"
				}
				cs = append(cs, TBytes(c.Bytes(l)))
			}
			plan = append(plan, TList{TI(2), TI(int64(other())), cs})
		}
	}
	return plan
}

// rfc6184Encode is written from RFC 6184 5.6, 5.7.1 and 5.8 and shares no code with the library.
func rfc6184Encode(plan []Tok) (payloads [][]byte, units [][]byte) {
	for _, it := range plan {
		l := tokList(it)
		switch tokInt(l[0]) {
		case 0:
			n := tokBytes(l[1])
			payloads = append(payloads, append([]byte{}, n...))
			units = append(units, n)
		case 1:
			p := []byte{24 | byte(tokInt(l[1]))}
			for _, u := range tokList(l[2]) {
				b := tokBytes(u)
				p = append(p, byte(len(b)>>8), byte(len(b)))
				p = append(p, b...)
				units = append(units, b)
			}
			payloads = append(payloads, p)
		case 2:
			h := byte(tokInt(l[1]))
			cs := tokList(l[2])
			unit := []byte{h}
			for i, ch := range cs {
				b := tokBytes(ch)
				fh := h & 0x1F
				if i == 0 {
					fh |= 0x80
				}
				if i == len(cs)-1 {
					fh |= 0x40
				}
				payloads = append(payloads, append([]byte{h&0xE0 | 28, fh}, b...))
				unit = append(unit, b...)
			}
			units = append(units, unit)
		}
	}
	return payloads, units
}

func runRfc6184Plan(avc bool, plan []Tok) Outcome {
	var o Outcome
	payloads, units := rfc6184Encode(plan)
	seq := runH264UnmarshalSeq(avc, payloads)
	ps := VList{}
	for _, p := range payloads {
		ps = append(ps, B(p))
	}
	o = seq
	o.Impl = L(ps, seq.Impl)
	o.Nontrivial = true
	if o.Fail != "" {
		return o
	}
	// oracle: the concatenated output is exactly the units of the plan behind the receiver's prefix
	d := &codecs.H264Packet{IsAVC: avc}
	var got []byte
	for i, p := range payloads {
		out, err := d.Unmarshal(append([]byte{}, p...))
		if err != nil {
			o.Fail = fmt.Sprintf("packet %d of a well-formed RFC 6184 stream rejected: %v", i, err)
			return o
		}
		got = append(got, out...)
	}
	if !bytes.Equal(got, frameAs(avc, units)) {
		o.Fail = fmt.Sprintf("decoded stream differs from the units of the plan: got %x want %x", got, frameAs(avc, units))
	}
	return o
}

func init() {
	run := func(op int, toks []Tok) Outcome {
		switch op {
		case 1006:
			return runH264Lossless(tokInt(toks[0]) != 0, tokInt(toks[1]) != 0, tokList(toks[2]))
		case 1004:
			return runRfc6184Plan(tokInt(toks[0]) != 0, tokList(toks[1]))
		case 1005: // isAVC nhist [payloads]: history then an intact frame (C15)
			avc := tokInt(toks[0]) != 0
			var ps [][]byte
			for _, t := range tokList(toks[2]) {
				ps = append(ps, tokBytes(t))
			}
			return runResync(runH264UnmarshalSeq(avc, ps), int(tokInt(toks[1])), ps, func() func([]byte) ([]byte, error) {
				d := &codecs.H264Packet{IsAVC: avc}
				return d.Unmarshal
			})
		case 1001:
			return runH264History(tokInt(toks[0]) != 0, tokList(toks[1]))
		case 1002:
			var ps [][]byte
			for _, t := range tokList(toks[1]) {
				ps = append(ps, tokBytes(t))
			}
			return runH264UnmarshalSeq(tokInt(toks[0]) != 0, ps)
		case 1003: // lossless oracle replay: disable avc mtu [[annexb]...] - stream given literally
			disable, avc, mtu := tokInt(toks[0]) != 0, tokInt(toks[1]) != 0, int(tokInt(toks[2]))
			p := &codecs.H264Payloader{DisableStapA: disable}
			d := &codecs.H264Packet{IsAVC: avc}
			var o Outcome
			res := VList{}
			for _, t := range tokList(toks[3]) {
				for _, f := range p.Payload(uint16(mtu), tokBytes(t)) {
					out, err := d.Unmarshal(f)
					if err != nil {
						res = append(res, errV(err))
					} else {
						res = append(res, OkV(B(out)))
					}
				}
			}
			o.Impl = res
			return o
		}
		panic("bad op")
	}
	register(&Prop{
		ID:       "C10",
		Rule:     "Annex-B access-unit sequences (NAL types 1-23, every first byte incl. the F bit in one unit of eight, sizes 2 B to 4xMTU with mass on MTU-2..MTU+2 and 2xMTU, emulation prevention sequences 00 00 03 inside bodies, 3- and 4-byte start codes, SPS/PPS pairs, several PPS behind one SPS, lone and reversed parameter sets, parameter sets held across the end of a call, AUD/filler sprinkled in) x MTU 3-1500 (changing from call to call in a quarter of the cases) x StapA on/off x AVC on/off over 1-3 calls: payloader output is fed to H264Packet and compared with the units; plus plans (1-5 items: single NAL unit packets, STAP-As of 1-4 units, FU-A runs of 2-5 fragments cut anywhere, a third of the fragments empty) encoded by an independent RFC 6184 encoder in Go and by Spec/Rfc6184.v and decoded by H264Packet; plus raw payloader histories and depacketizer sequences (random, mutated) for the correspondence; non-trivial = at least one FU-A train or a STAP-A",
		Quick:    3000,
		Thorough: 150000,
		Gen: func(r *RNG, tier string, n int, emit func(op int, toks ...Tok)) {
			emitH264Extremes(r.Fork(31337), emit)
			for i := 0; i < n; i++ {
				c := r.Fork(uint64(i))
				disable, avc := c.Intn(3) == 0, c.Bool()
				mtu := c.Pick(3, 4, 5, 8, 16, 17, 30, 100, 1200, 3+c.Intn(60))
				ncalls := 1 + c.Intn(3)
				var calls [][][]byte
				for j := 0; j < ncalls; j++ {
					calls = append(calls, genAccessUnit(c, mtu))
				}
				cs := unitCallsTok(c.Fork(99), mtu, calls)
				emit(1006, TI(b2i(disable)), TI(b2i(avc)), cs)
				// the raw streams as a payloader history and the packets as a receiver sequence, too
				streams, mtus, _ := unitStreams(cs)
				p := &codecs.H264Payloader{DisableStapA: disable}
				hist, ps := TList{}, TList{}
				for k := range streams {
					hist = append(hist, TList{TI(int64(mtus[k])), TBytes(streams[k])})
					for _, f := range p.Payload(uint16(mtus[k]), append([]byte{}, streams[k]...)) {
						ps = append(ps, TBytes(f))
					}
				}
				emit(1001, TI(b2i(disable)), hist)
				emit(1002, TI(b2i(avc)), ps)
				// decoder clause: a plan for the independent RFC 6184 encoder
				emit(1004, TI(b2i(c.Bool())), genRfc6184Plan(c.Fork(5)))
			}
		},
		Run: run,
	})
}
