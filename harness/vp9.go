package main

import (
	"bytes"
	"fmt"

	"github.com/pion/rtp/codecs"
	"github.com/pion/rtp/codecs/vp9"
)

// VP9 (C12 and the VP9 instances of C08/C09).
// opcodes: 1201 flexible initialPictureID [[mtu frame]...]   one VP9Payloader, a history of calls
//          1202 [payloads...]                                 one VP9Packet receiver
//          1203 xbytes                                        vp9.Header.Unmarshal

type bitWriter struct {
	b []byte
	n int
}

func (w *bitWriter) put(v uint64, n int) {
	for i := n - 1; i >= 0; i-- {
		if w.n%8 == 0 {
			w.b = append(w.b, 0)
		}
		if v>>uint(i)&1 == 1 {
			w.b[w.n/8] |= 1 << uint(7-w.n%8)
		}
		w.n++
	}
}

type vp9Frame struct {
	profile       int
	key           bool
	showExisting  bool
	width, height int
	bytes         []byte
}

// uncompressed_header() of the VP9 bitstream specification, section 6.2, written from the syntax table
func genVp9Frame(c *RNG) vp9Frame {
	f := vp9Frame{profile: c.Intn(4), key: c.Bool(), showExisting: c.Intn(12) == 0}
	w := &bitWriter{}
	w.put(2, 2)
	w.put(uint64(f.profile&1), 1)
	w.put(uint64(f.profile>>1), 1)
	if f.profile == 3 {
		w.put(0, 1)
	}
	if f.showExisting {
		w.put(1, 1)
		w.put(uint64(c.Intn(8)), 3)
	} else {
		w.put(0, 1)
		if f.key {
			w.put(0, 1)
		} else {
			w.put(1, 1)
		}
		w.put(uint64(c.Intn(2)), 1)
		w.put(uint64(c.Intn(2)), 1)
		f.width, f.height = c.Pick(1, 2, 65535, 1+c.Intn(65535)), c.Pick(1, 65535, 1+c.Intn(65535))
		if f.key {
			w.put(0x49, 8)
			w.put(0x83, 8)
			w.put(0x42, 8)
			if f.profile >= 2 {
				w.put(uint64(c.Intn(2)), 1)
			}
			cs := c.Intn(8)
			w.put(uint64(cs), 3)
			if cs != 7 {
				w.put(uint64(c.Intn(2)), 1)
				if f.profile == 1 || f.profile == 3 {
					w.put(uint64(c.Intn(4)), 2)
					w.put(0, 1)
				}
			} else if f.profile == 1 || f.profile == 3 {
				w.put(0, 1)
			}
			w.put(uint64(f.width-1), 16)
			w.put(uint64(f.height-1), 16)
		}
	}
	if w.n%8 != 0 {
		w.put(uint64(c.Intn(256)), 8-w.n%8)
	}
	f.bytes = append(w.b, c.Bytes(c.Intn(60))...)
	return f
}

func vVp9Pkt(p *codecs.VP9Packet) Val {
	u8s := func(xs []uint8) Val {
		o := VList{}
		for _, x := range xs {
			o = append(o, I(int64(x)))
		}
		return o
	}
	u16s := func(xs []uint16) Val {
		o := VList{}
		for _, x := range xs {
			o = append(o, I(int64(x)))
		}
		return o
	}
	pgu := VList{}
	for _, x := range p.PGU {
		pgu = append(pgu, Bool(x))
	}
	pgp := VList{}
	for _, x := range p.PGPDiff {
		pgp = append(pgp, u8s(x))
	}
	return L(Bool(p.I), Bool(p.P), Bool(p.L), Bool(p.F), Bool(p.B), Bool(p.E), Bool(p.V), Bool(p.Z), I(int64(p.PictureID)),
		I(int64(p.TID)), Bool(p.U), I(int64(p.SID)), Bool(p.D), u8s(p.PDiff), I(int64(p.TL0PICIDX)), I(int64(p.NS)), Bool(p.Y),
		Bool(p.G), I(int64(p.NG)), u16s(p.Width), u16s(p.Height), u8s(p.PGTID), pgu, pgp, B(nn(p.Payload)))
}

func vp9CallTok(mtu int, f vp9Frame) Tok {
	return TList{TI(int64(mtu)), TBytes(f.bytes), TI(b2i(f.key)), TI(b2i(f.showExisting)), TI(int64(f.width)), TI(int64(f.height))}
}

func runVp9History(flexible bool, init uint16, calls []Tok, frames []vp9Frame) Outcome {
	var o Outcome
	p := &codecs.VP9Payloader{FlexibleMode: flexible, InitialPictureIDFn: func() uint16 { return init }}
	res := VList{}
	pid := int(init & 0x7FFF)
	skipped := 0 // calls that returned no packet since the last judged frame (pid has been advanced for each)
	for ci, c := range calls {
		l := tokList(c)
		mtu, frame := uint16(tokInt(l[0])), tokBytes(l[1])
		v, frags, intact, fresh, panicked := runPayloader(p, mtu, frame)
		res = append(res, v)
		if panicked {
			o.Fail = fmt.Sprintf("call %d: panic", ci)
			break
		}
		if !intact {
			o.Fail = fmt.Sprintf("call %d: input modified", ci)
		}
		if !fresh {
			o.Fail = fmt.Sprintf("call %d: fragment aliases the input", ci)
		}
		for fi, f := range frags {
			if len(f) > int(mtu) || len(f) == 0 {
				o.Fail = fmt.Sprintf("call %d: fragment %d has %d bytes at MTU %d", ci, fi, len(f), mtu)
			}
		}
		o.Tags = append(o.Tags, fmt.Sprintf("vp9 flexible=%v frags %s", flexible, sizeBucket(len(frags))))
		if len(frags) == 0 {
			// no packet: an insufficient MTU or a frame without a readable header - outside the property's
			// quantifier, and whether such a call uses up a picture id is the implementation's choice
			skipped++
			pid = (pid + 1) & 0x7FFF
			continue
		}
		if skipped > 0 {
			d := &codecs.VP9Packet{}
			if _, err := d.Unmarshal(frags[0]); err == nil && d.I {
				for k := 0; k <= skipped; k++ {
					if (pid-k)&0x7FFF == int(d.PictureID) {
						pid = (pid - k) & 0x7FFF
						break
					}
				}
			}
			skipped = 0
		}
		if frames != nil && len(frags) > 0 {
			fr := frames[ci]
			o.Nontrivial = true
			var cat []byte
			for fi, f := range frags {
				d := &codecs.VP9Packet{}
				body, err := d.Unmarshal(f)
				if err != nil {
					o.Fail = fmt.Sprintf("call %d: fragment %d does not parse: %v", ci, fi, err)
					continue
				}
				cat = append(cat, body...)
				if d.B != (fi == 0) || d.E != (fi == len(frags)-1) {
					o.Fail = fmt.Sprintf("call %d: B/E wrong on fragment %d", ci, fi)
				}
				if !d.I || int(d.PictureID) != pid {
					o.Fail = fmt.Sprintf("call %d: fragment %d carries picture id %d, expected %d", ci, fi, d.PictureID, pid)
				}
				if !flexible && !fr.showExisting {
					if d.P != !fr.key {
						o.Fail = fmt.Sprintf("call %d: P=%v on a frame with key=%v", ci, d.P, fr.key)
					}
					if fr.key && fi == 0 {
						if !d.V || len(d.Width) != 1 || int(d.Width[0]) != fr.width || int(d.Height[0]) != fr.height {
							o.Fail = fmt.Sprintf("call %d: scalability structure %v x %v, frame header says %d x %d", ci, d.Width, d.Height, fr.width, fr.height)
						}
					} else if d.V {
						o.Fail = fmt.Sprintf("call %d: unexpected scalability structure on fragment %d", ci, fi)
					}
				}
			}
			if !bytes.Equal(cat, frame) {
				o.Fail = fmt.Sprintf("call %d: payloads do not concatenate to the frame", ci)
			}
		}
		pid = (pid + 1) & 0x7FFF
	}
	o.Impl = res
	return o
}

// vp9RefDescriptor reads the VP9 payload descriptor (draft-ietf-payload-vp9 / RFC 9628, section 4.2)
// up to the scalability structure, independently of the library: I P L F B E V Z, the picture id,
// the layer indices, TL0PICIDX (non-flexible mode only) and the reference indices (flexible mode with P).
type vp9Ref struct {
	i, p, l, f, b, e, v, z bool
	pictureID              int
	tid, sid               int
	u, d                   bool
	tl0                    int
	pdiff                  []uint8
	ok                     bool
}

func vp9RefDescriptor(in []byte) (r vp9Ref) {
	if len(in) < 1 {
		return
	}
	bit := func(k uint) bool { return in[0]>>k&1 == 1 }
	r.i, r.p, r.l, r.f, r.b, r.e, r.v, r.z = bit(7), bit(6), bit(5), bit(4), bit(3), bit(2), bit(1), bit(0)
	idx := 1
	need := func(n int) bool { return len(in) >= idx+n }
	if r.i {
		if !need(1) {
			return
		}
		if in[idx]&0x80 != 0 {
			if !need(2) {
				return
			}
			r.pictureID = int(in[idx]&0x7F)<<8 | int(in[idx+1])
			idx += 2
		} else {
			r.pictureID = int(in[idx])
			idx++
		}
	}
	if r.l {
		if !need(1) {
			return
		}
		r.tid, r.u, r.sid, r.d = int(in[idx]>>5), in[idx]>>4&1 == 1, int(in[idx]>>1&7), in[idx]&1 == 1
		idx++
		if !r.f {
			if !need(1) {
				return
			}
			r.tl0 = int(in[idx])
			idx++
		}
	}
	if r.f && r.p {
		for {
			if !need(1) || len(r.pdiff) == 3 {
				return
			}
			r.pdiff = append(r.pdiff, in[idx]>>1)
			more := in[idx]&1 == 1
			idx++
			if !more {
				break
			}
		}
	}
	r.ok = true
	return
}

func runVp9UnmarshalSeq(payloads [][]byte) Outcome {
	var o Outcome
	d := &codecs.VP9Packet{}
	res := VList{}
	afterReject := false
	for i, in := range payloads {
		g, buf := newGuarded(in)
		var err error
		if pn, what := catch(func() { _, err = d.Unmarshal(buf) }); pn {
			res = append(res, PanicV())
			o.Fail = fmt.Sprintf("step %d: panic %s", i, what)
			d = &codecs.VP9Packet{}
			continue
		}
		head := d.IsPartitionHead(buf)
		if !g.intact(in) {
			o.Fail = fmt.Sprintf("step %d: input modified", i)
		}
		if err != nil {
			res = append(res, T(1, L(I(1), Bool(head))))
			o.Tags = append(o.Tags, "vp9 rejected")
			afterReject = true
			continue // the receiver is kept: a rejected payload must not show in the next result
		}
		o.Nontrivial = true
		o.Tags = append(o.Tags, "vp9 accepted")
		if afterReject {
			o.Tags = append(o.Tags, "accepted into a receiver that had rejected an input")
		}
		res = append(res, OkV(L(vVp9Pkt(d), Bool(head))))
		if ref := vp9RefDescriptor(in); ref.ok && o.Fail == "" {
			same := d.I == ref.i && d.P == ref.p && d.L == ref.l && d.F == ref.f && d.B == ref.b && d.E == ref.e && d.V == ref.v && d.Z == ref.z &&
				int(d.PictureID) == ref.pictureID && int(d.TID) == ref.tid && d.U == ref.u && int(d.SID) == ref.sid && d.D == ref.d &&
				int(d.TL0PICIDX) == ref.tl0 && bytes.Equal(d.PDiff, ref.pdiff)
			if !same {
				o.Fail = fmt.Sprintf("step %d: descriptor %x decoded as I=%v P=%v L=%v F=%v pictureID=%d TID=%d U=%v SID=%d D=%v TL0PICIDX=%d PDiff=%v, the payload format reads pictureID=%d TID=%d U=%v SID=%d D=%v TL0PICIDX=%d PDiff=%v",
					i, in[:minInt(len(in), 8)], d.I, d.P, d.L, d.F, d.PictureID, d.TID, d.U, d.SID, d.D, d.TL0PICIDX, d.PDiff,
					ref.pictureID, ref.tid, ref.u, ref.sid, ref.d, ref.tl0, ref.pdiff)
			}
		}
		f := &codecs.VP9Packet{}
		if _, e2 := f.Unmarshal(buf); e2 != nil || Render(vVp9Pkt(f)) != Render(vVp9Pkt(d)) {
			o.Fail = fmt.Sprintf("step %d: reused receiver differs from a fresh one", i)
		}
	}
	o.Impl = res
	return o
}

func genVp9Descriptor(c *RNG) []byte {
	i, p, l, f, v := c.Bool(), c.Bool(), c.Bool(), c.Bool(), c.Intn(3) == 0
	b0 := byte(c.Intn(16)) & 0x0D // B E Z random, V set below
	if i {
		b0 |= 0x80
	}
	if p {
		b0 |= 0x40
	}
	if l {
		b0 |= 0x20
	}
	if f {
		b0 |= 0x10
	}
	if v {
		b0 |= 0x02
	}
	out := []byte{b0}
	if i {
		if c.Bool() {
			id := c.Pick(0, 127, 128, 32767, c.Intn(32768))
			out = append(out, 0x80|byte(id>>8), byte(id))
		} else {
			out = append(out, byte(c.Intn(128)))
		}
	}
	if l {
		out = append(out, byte(c.Intn(8))<<5|byte(c.Intn(2))<<4|byte(c.Pick(0, 1, 4, 4, 5, 7))<<1|byte(c.Intn(2)))
		if !f {
			out = append(out, byte(c.Intn(256)))
		}
	}
	if f && p {
		n := 1 + c.Intn(4)
		for k := 0; k < n; k++ {
			b := byte(c.Intn(128)) << 1
			if k < n-1 {
				b |= 1
			}
			out = append(out, b)
		}
	}
	if v {
		ns := c.Pick(c.Intn(4), c.Intn(4), c.Intn(8)) // N_S is 3 bits: up to 8 spatial layers
		y, g := c.Bool(), c.Bool()
		b := byte(ns) << 5
		if y {
			b |= 0x10
		}
		if g {
			b |= 0x08
		}
		out = append(out, b)
		if y {
			out = append(out, c.Bytes(4*(ns+1))...)
		}
		if g {
			ng := c.Pick(c.Intn(4), c.Intn(4), c.Intn(4), c.Pick(16, 255, c.Intn(256))) // N_G is a full byte
			out = append(out, byte(ng))
			for k := 0; k < ng; k++ {
				r := c.Intn(4)
				out = append(out, byte(c.Intn(8))<<5|byte(c.Intn(2))<<4|byte(r)<<2)
				out = append(out, c.Bytes(r)...)
			}
		}
	}
	return append(out, c.Bytes(c.Intn(10))...)
}

func init() {
	run := func(op int, toks []Tok) Outcome {
		switch op {
		case 1201:
			return runVp9History(tokInt(toks[0]) != 0, uint16(tokInt(toks[1])), tokList(toks[2]), nil)
		case 1204:
			// flexible init [[mtu xframe key showExisting width height]...]: the frame description travels
			// with the case, so the oracle (losslessness, B/E, P, picture id, scalability structure) is here
			var frames []vp9Frame
			calls := TList{}
			for _, t := range tokList(toks[2]) {
				l := tokList(t)
				calls = append(calls, TList{l[0], l[1]})
				frames = append(frames, vp9Frame{key: tokInt(l[2]) != 0, showExisting: tokInt(l[3]) != 0, width: int(tokInt(l[4])), height: int(tokInt(l[5])), bytes: tokBytes(l[1])})
			}
			return runVp9History(tokInt(toks[0]) != 0, uint16(tokInt(toks[1])), calls, frames)
		case 1202:
			var ps [][]byte
			for _, t := range tokList(toks[0]) {
				ps = append(ps, tokBytes(t))
			}
			return runVp9UnmarshalSeq(ps)
		case 1203:
			var o Outcome
			in := tokBytes(toks[0])
			var h vp9.Header
			var err error
			if pn, what := catch(func() { err = h.Unmarshal(in) }); pn {
				o.Impl, o.Fail = PanicV(), "panic: "+what
				return o
			}
			if err != nil {
				o.Impl = ErrV(1)
				return o
			}
			o.Nontrivial = true
			var cc Val = T(1, Unit)
			if h.ColorConfig != nil {
				c := h.ColorConfig
				cc = T(0, L(I(int64(c.BitDepth)), I(int64(c.ColorSpace)), Bool(c.ColorRange), Bool(c.SubsamplingX), Bool(c.SubsamplingY)))
			}
			o.Impl = OkV(L(I(int64(h.Profile)), Bool(h.ShowExistingFrame), I(int64(h.FrameToShowMapIdx)), Bool(h.NonKeyFrame), Bool(h.ShowFrame),
				Bool(h.ErrorResilientMode), cc, I(int64(h.Width())), I(int64(h.Height()))))
			return o
		}
		panic("bad op")
	}
	register(&Prop{
		ID:       "C12",
		Rule:     "frames with uncompressed headers generated from the VP9 syntax table (profiles 0-3, key / non-key / show_existing, colour spaces 0-7, sizes incl. 1 and 65535, random tails) x MTU 4-1500 (mass on 12-20) x flexible / non-flexible x start picture ids 0, 0x7FFE, 0x7FFF, random, over 1-4 calls; descriptors from an independent generator (picture id forms, layer indices, 1-4 reference indices, scalability structures) with truncations; raw and truncated frame headers; non-trivial = a frame that produced fragments, or an accepted descriptor/header",
		Quick:    4000,
		Thorough: 200000,
		Gen: func(r *RNG, tier string, n int, emit func(op int, toks ...Tok)) {
			// frames longer than 65535 bytes, and frames cut into more than 256 fragments
			for k, cfg := range [][3]int{{0, 1200, 70000}, {1, 1200, 70000}, {0, 65535, 65536 + 90}, {1, 16, 4 * 300}, {0, 7, 4 * 300}} {
				c := r.Fork(uint64(5000 + k))
				f := genVp9Frame(c)
				f.bytes = append(f.bytes, c.Bytes(cfg[2])...)
				f2 := genVp9Frame(c)
				emit(1204, TI(int64(cfg[0])), TI(0x7FFF), TList{vp9CallTok(cfg[1], f), vp9CallTok(20, f2)})
			}
			for i := 0; i < n; i++ {
				c := r.Fork(uint64(i))
				switch c.Intn(4) {
				case 0, 1:
					flexible := c.Bool()
					init := uint16(c.Pick(0, 0x7FFE, 0x7FFF, 0xFFFF, c.Intn(65536)))
					var calls TList
					var frames []vp9Frame
					for k, kn := 0, 1+c.Intn(4); k < kn; k++ {
						f := genVp9Frame(c)
						mtu := c.Pick(4, 11, 12, 13, 14, 20, 1200, 12+c.Intn(40), c.Intn(12))
						calls = append(calls, vp9CallTok(mtu, f))
						frames = append(frames, f)
					}
					emit(1204, TI(b2i(flexible)), TI(int64(init)), calls)
				case 2:
					ps := TList{}
					for k, kn := 0, 1+c.Intn(4); k < kn; k++ {
						b := genVp9Descriptor(c)
						if c.Intn(4) == 0 {
							b = b[:c.Intn(len(b)+1)]
						}
						if c.Intn(30) == 0 {
							b = nil
						}
						ps = append(ps, TB(b))
					}
					emit(1202, ps)
				default:
					f := genVp9Frame(c)
					b := f.bytes
					switch c.Intn(4) {
					case 0:
						b = b[:c.Intn(len(b)+1)]
					case 1:
						b = append([]byte{}, b...)
						b[c.Intn(minInt(len(b), 8))] ^= 1 << uint(c.Intn(8))
					}
					emit(1203, TBytes(b))
					if c.Intn(4) == 0 {
						// every cut inside the uncompressed header: each field of the syntax table is once the
						// first one that is missing (the error returns of the bit reader are otherwise never taken)
						for k := 0; k <= minInt(len(f.bytes), 14); k++ {
							emit(1203, TBytes(f.bytes[:k]))
						}
					}
				}
			}
		},
		Run: run,
	})
}
