package main

import (
	"fmt"
	"math/big"
	"sort"
	"sync"
	"sync/atomic"

	"github.com/pion/rtp"
)

// C07: the sequencer is a linearizable 16-bit counter with exact rollover count.
// opcode 701: kind start [ops] [observed]   (op 0 = NextSequenceNumber, 1 = RollOverCount)
// opcode 703: [[r0 v r1]...]  a goroutine's recorded (RollOverCount, Next, RollOverCount) trace from the stress run
// opcode 702: draw [ops]    NewRandomSequencer with the generator stubbed through the verif hook
// opcode 704: start [ops]   one sequencer shared by direct callers and a Packetizer: op 0 = NextSequenceNumber,
//             1 = RollOverCount, [2 k] = Packetize of a k-packet frame, [3 n] = GeneratePadding(n); every number
//             handed out - through whichever door - is one step of the same counter
// The generator runs N goroutines against one sequencer, records every call with tickets taken
// from a global atomic counter before and after it, reconstructs the only possible linearization
// and emits it together with the results the goroutines observed.  Running the case executes the
// same operation list sequentially; the observed results must be exactly the sequential ones.

type call struct {
	g        int
	kind     int // 0 next, 1 roc
	inv, rsp int64
	res      uint64
	pos      int // position in the linearization (number of Next calls before it; Next: its index)
}

func concurrentRun(s rtp.Sequencer, goroutines, perG int, rocEvery int) []call {
	var ticket int64
	var wg sync.WaitGroup
	out := make([][]call, goroutines)
	start := make(chan struct{})
	for g := 0; g < goroutines; g++ {
		wg.Add(1)
		go func(g int) {
			defer wg.Done()
			cs := make([]call, 0, perG+perG/rocEvery+1)
			<-start
			for i := 0; i < perG; i++ {
				c := call{g: g}
				c.inv = atomic.AddInt64(&ticket, 1)
				c.res = uint64(s.NextSequenceNumber())
				c.rsp = atomic.AddInt64(&ticket, 1)
				cs = append(cs, c)
				if rocEvery > 0 && i%rocEvery == g%rocEvery {
					c := call{g: g, kind: 1}
					c.inv = atomic.AddInt64(&ticket, 1)
					c.res = s.RollOverCount()
					c.rsp = atomic.AddInt64(&ticket, 1)
					cs = append(cs, c)
				}
			}
			out[g] = cs
		}(g)
	}
	close(start)
	wg.Wait()
	var all []call
	for _, cs := range out {
		all = append(all, cs...)
	}
	return all
}

// linearize orders the calls; ok=false when no linearization consistent with a 16-bit counter
// starting at first exists (then the order is by response ticket, for the replay).
func linearize(all []call, first uint16) (ordered []call, why string) {
	var nexts, rocs []*call
	for i := range all {
		if all[i].kind == 0 {
			nexts = append(nexts, &all[i])
		} else {
			rocs = append(rocs, &all[i])
		}
	}
	m := len(nexts)
	// number of Next calls that responded before ticket t / were invoked before ticket t
	rsps := make([]int64, m)
	invs := make([]int64, m)
	for i, c := range nexts {
		rsps[i], invs[i] = c.rsp, c.inv
	}
	sort.Slice(rsps, func(i, j int) bool { return rsps[i] < rsps[j] })
	sort.Slice(invs, func(i, j int) bool { return invs[i] < invs[j] })
	before := func(xs []int64, t int64) int { return sort.Search(len(xs), func(i int) bool { return xs[i] >= t }) }
	used := make([]bool, m)
	fallback := func(w string) ([]call, string) {
		o := append([]call{}, all...)
		sort.Slice(o, func(i, j int) bool { return o[i].rsp < o[j].rsp })
		return o, w
	}
	for _, c := range nexts {
		lo := before(rsps, c.inv)       // these are certainly earlier
		hi := before(invs, c.rsp) - 1   // it cannot be later than all calls invoked before it returned (minus itself)
		d := int(uint16(uint16(c.res) - first))
		// smallest e >= lo with e = d (mod 65536)
		e := lo + ((d-lo)%65536+65536)%65536
		if e > hi || e >= m {
			return fallback(fmt.Sprintf("goroutine %d received %d, which no position in [%d,%d] of the count can explain", c.g, c.res, lo, hi))
		}
		if used[e] {
			return fallback(fmt.Sprintf("value %d handed out twice", c.res))
		}
		used[e] = true
		c.pos = e
	}
	// rollover counts: wraps(p) = number of zeros among the first p Next results
	zerosUpTo := make([]int, m+1)
	byPos := make([]*call, m)
	for _, c := range nexts {
		byPos[c.pos] = c
	}
	for p := 0; p < m; p++ {
		zerosUpTo[p+1] = zerosUpTo[p]
		if uint16(byPos[p].res) == 0 {
			zerosUpTo[p+1]++
		}
	}
	for _, c := range rocs {
		lo := before(rsps, c.inv)
		hi := before(invs, c.rsp)
		found := -1
		for p := lo; p <= hi && p <= m; p++ {
			if uint64(zerosUpTo[p]) == c.res {
				found = p
				break
			}
		}
		if found < 0 {
			return fallback(fmt.Sprintf("RollOverCount returned %d, but between %d and %d numbers had been issued with %d..%d zeros", c.res, lo, hi, zerosUpTo[lo], zerosUpTo[minInt(hi, m)]))
		}
		c.pos = found
	}
	ordered = append([]call{}, all...)
	sort.SliceStable(ordered, func(i, j int) bool {
		a, b := ordered[i], ordered[j]
		ka, kb := 2*a.pos+1, 2*b.pos+1 // a Next at index e sits between "e issued" and "e+1 issued"
		if a.kind == 1 {
			ka = 2 * a.pos
		}
		if b.kind == 1 {
			kb = 2 * b.pos
		}
		if ka != kb {
			return ka < kb
		}
		return a.inv < b.inv
	})
	return ordered, ""
}

// ---- stress: many wraps under real parallelism, checked with a sound per-goroutine rule -------------
// Every goroutine repeats (RollOverCount, NextSequenceNumber, RollOverCount).  In any linearization
// the rollover count at the instant a value v is issued lies between the two reads around it, so its
// extended value E = roc*65536 + v lies in [r0*65536+v, r1*65536+v]; the property says E strictly
// increases in issue order, in particular along one goroutine's own calls.  A trace for which no
// choice of E_i in those intervals increases is a violation whatever the schedule was.
type triple struct{ r0, v, r1 uint64 }

func traceViolation(tr []triple) (int, string) {
	last := int64(-1)
	for i, t := range tr {
		if t.r1 < t.r0 {
			return i, fmt.Sprintf("RollOverCount went back from %d to %d around a call", t.r0, t.r1)
		}
		e := int64(t.r0)*65536 + int64(t.v)
		for e <= last && uint64(e/65536) < t.r1 {
			e += 65536
		}
		if e <= last {
			return i, fmt.Sprintf("value %d with RollOverCount %d..%d around it cannot come after extended value %d", t.v, t.r0, t.r1, last)
		}
		last = e
	}
	return -1, ""
}

func stressRun(s rtp.Sequencer, goroutines, perG int) (window []triple, why string) {
	var wg sync.WaitGroup
	traces := make([][]triple, goroutines)
	start := make(chan struct{})
	for g := 0; g < goroutines; g++ {
		wg.Add(1)
		go func(g int) {
			defer wg.Done()
			tr := make([]triple, 0, perG)
			<-start
			for i := 0; i < perG; i++ {
				r0 := s.RollOverCount()
				v := s.NextSequenceNumber()
				r1 := s.RollOverCount()
				tr = append(tr, triple{r0, uint64(v), r1})
			}
			traces[g] = tr
		}(g)
	}
	close(start)
	wg.Wait()
	counts := make(map[uint16]int)
	for _, tr := range traces {
		for _, t := range tr {
			counts[uint16(t.v)]++
		}
		if i, w := traceViolation(tr); i >= 0 {
			lo := i - 3
			if lo < 0 {
				lo = 0
			}
			return tr[lo : i+1], w
		}
	}
	total := goroutines * perG
	for v, c := range counts {
		if c < total/65536 || c > total/65536+1 {
			return []triple{{0, uint64(v), 0}}, fmt.Sprintf("value %d handed out %d times in %d calls", v, c, total)
		}
	}
	return nil, ""
}

// stubRand is the generator installed through the verif hook: every method returns the draw d,
// clamped to the method's range.
type stubRand struct{ d *big.Int }

func (g stubRand) Intn(n int) int {
	if g.d.Cmp(big.NewInt(int64(n))) >= 0 {
		return n - 1
	}
	return int(g.d.Int64())
}
func (g stubRand) Uint32() uint32 { return uint32(new(big.Int).And(g.d, big.NewInt(1<<32-1)).Uint64()) }
func (g stubRand) Uint64() uint64 { return g.d.Uint64() }
func (g stubRand) GenerateString(n int, runes string) string {
	return ""
}

func minInt(a, b int) int {
	if a < b {
		return a
	}
	return b
}

func emitHistory(emit func(op int, toks ...Tok), kind int, start int64, ordered []call) {
	ops, obs := TList{}, TList{}
	for _, c := range ordered {
		ops = append(ops, TI(int64(c.kind)))
		obs = append(obs, TU(c.res))
	}
	emit(701, TI(int64(kind)), TI(start), ops, obs)
}

// onePerByte is a payloader that cuts its input into one-byte fragments: a k-byte sample is a k-packet frame
type onePerByte struct{}

func (onePerByte) Payload(mtu uint16, payload []byte) [][]byte {
	var out [][]byte
	for i := range payload {
		out = append(out, []byte{payload[i]})
	}
	return out
}

func runSharedSequencer(start int64, ops []Tok) Outcome {
	var o Outcome
	s := rtp.NewFixedSequencer(uint16(start))
	pz := rtp.NewPacketizer(100, 96, 0x1234, onePerByte{}, s, 90000)
	res := VList{}
	issued, zeros := 0, uint64(0)
	fail := func(f string, a ...interface{}) {
		if o.Fail == "" {
			o.Fail = fmt.Sprintf(f, a...)
		}
	}
	take := func(i int, v uint16) {
		if want := uint16(start) + uint16(issued); v != want {
			fail("op %d: sequence number %d handed out, the counter stands at %d (gap or duplicate)", i, v, want)
		}
		if v == 0 {
			zeros++
		}
		issued++
	}
	for i, t := range ops {
		if l, ok := t.(TList); ok {
			k := int(tokInt(l[1]))
			var pkts []*rtp.Packet
			if tokInt(l[0]) == 2 {
				pkts = pz.Packetize(make([]byte, k), 10)
			} else {
				pkts = pz.GeneratePadding(uint32(k))
			}
			vs := VList{}
			if len(pkts) != k {
				fail("op %d: %d packets returned, %d expected", i, len(pkts), k)
			}
			for _, p := range pkts {
				take(i, p.SequenceNumber)
				vs = append(vs, I(int64(p.SequenceNumber)))
			}
			res = append(res, vs)
			continue
		}
		if tokInt(t) == 0 {
			v := s.NextSequenceNumber()
			take(i, v)
			res = append(res, I(int64(v)))
		} else {
			roc := s.RollOverCount()
			if roc != zeros {
				fail("op %d: RollOverCount %d, but 0 has been handed out %d times", i, roc, zeros)
			}
			res = append(res, U(roc))
		}
	}
	o.Impl, o.Nontrivial = res, true
	o.Tags = []string{"sequencer shared with a packetizer"}
	return o
}

func init() {
	register(&Prop{
		ID:       "C07",
		Rule:     "N in {2,4,8,16} goroutines x K calls on one sequencer (binary built with -race), one sequencer shared by direct callers, Packetize frames of 1-9 packets and GeneratePadding runs placed all around the wrap, RollOverCount interleaved every 7th call, fixed starts over all 65536 values (thorough) / 1024 (quick) with short runs and 64 starts near the wrap with >= 3 wraps, random sequencers; 16 goroutines x 70000 (quick) / 400000 (thorough) iterations of (RollOverCount, Next, RollOverCount) over several wraps, each goroutine's trace checked for a consistent strictly increasing extended value; each observed history of the smaller runs is linearized from invocation/response tickets and re-executed sequentially on the implementation and on the model; non-trivial = history with at least one wrap or at least two goroutines",
		Quick:    1100,
		Thorough: 66000,
		Gen: func(r *RNG, tier string, n int, emit func(op int, toks ...Tok)) {
			// sequential histories around the wrap with RollOverCount after every call (no schedule
			// needed to see a rollover counted one call early or late), and the boundary draws of
			// the random generator through the verif hook
			for _, start := range []int64{0, 1, 2, 65535, 65534, 65533, 32767, 32768} {
				ops := TList{TI(1)}
				for k := 0; k < 8; k++ {
					ops = append(ops, TI(0), TI(1))
				}
				emit(701, TI(0), TI(start), ops)
			}
			{
				c := r.Fork(7777)
				start := int64(65536 - 20 + c.Intn(15))
				ops := TList{}
				for k := 0; k < 2*65536+40; k++ {
					ops = append(ops, TI(0))
					if k%65536 < 40 || c.Intn(500) == 0 {
						ops = append(ops, TI(1))
					}
				}
				emit(701, TI(0), TI(start), ops)
			}
			for _, d := range []int64{0, 1, 2, 32765, 32766, 32767, 32768, 65535, 65536, 1<<31 - 1, 1 << 31, 1<<32 - 1, 1<<62 + 12345} {
				emit(702, TI(d), TList{TI(1), TI(0), TI(1), TI(0), TI(0), TI(1)})
			}
			for k := 0; k < 40; k++ {
				c := r.Fork(uint64(9000 + k))
				emit(702, TI(int64(c.Intn(40000))), TList{TI(0), TI(1), TI(0)})
			}
			// the sequencer shared between direct callers and a packetizer: frames and padding runs that end
			// before, on and after the wrap and that START on 65535, 0 and 1, RollOverCount read around each
			for lead := 0; lead <= 6; lead++ {
				for _, k := range []int64{1, 2, 4} {
					for kind := int64(2); kind <= 3; kind++ {
						ops := TList{TI(1)}
						for j := 0; j < lead; j++ {
							ops = append(ops, TI(0), TI(1))
						}
						ops = append(ops, TList{TI(kind), TI(k)}, TI(1), TI(0), TI(1), TList{TI(5 - kind), TI(3)}, TI(1), TI(0), TI(1))
						emit(704, TI(65533), ops)
					}
				}
			}
			for k := 0; k < 60; k++ {
				c := r.Fork(uint64(7040 + k))
				ops := TList{}
				for j := 0; j < 6+c.Intn(20); j++ {
					switch c.Intn(4) {
					case 0:
						ops = append(ops, TI(0))
					case 1:
						ops = append(ops, TI(1))
					default:
						ops = append(ops, TList{TI(int64(2 + c.Intn(2))), TI(int64(1 + c.Intn(9)))}, TI(1))
					}
				}
				emit(704, TI(int64(65536-40+c.Intn(45))%65536), ops)
			}
			// stress: several wraps with every goroutine reading the rollover count around each call
			{
				rounds, perG := 3, 70000
				if tier == "thorough" {
					rounds, perG = 12, 400000
				}
				for k := 0; k < rounds; k++ {
					st := uint16(65536 - 300 + 97*k)
					if win, why := stressRun(rtp.NewFixedSequencer(st), 16, perG); why != "" {
						tl := TList{}
						for _, t := range win {
							tl = append(tl, TList{TU(t.r0), TU(t.v), TU(t.r1)})
						}
						emit(703, tl)
					}
				}
				// a consistent trace, so that the opcode is exercised on the unchanged tree too
				emit(703, TList{TList{TU(0), TU(65535), TU(0)}, TList{TU(0), TU(0), TU(1)}, TList{TU(1), TU(1), TU(1)}})
			}
			for i := 0; i < n; i++ {
				c := r.Fork(uint64(i))
				gs := c.Pick(2, 4, 8, 16)
				var start int64
				nLong := 4
				if tier == "thorough" {
					nLong = 64
				}
				long := i < nLong && i%16 != 15
				if tier == "thorough" && i >= 64 && i < 64+65536 {
					start = int64(i - 64)
				} else if long {
					start = int64(65536 - 50 + c.Intn(100)) % 65536
				} else {
					start = int64(c.Intn(65536))
				}
				per := 8
				if long {
					per = 3*65536/gs + 100
				}
				if i%16 == 15 {
					// random sequencer
					s := rtp.NewRandomSequencer()
					all := concurrentRun(s, gs, per, 7)
					// the first value in the linearization is the smallest-position Next; derive the draw
					minV := uint16(65535)
					for _, cl := range all {
						if cl.kind == 0 && uint16(cl.res) < minV {
							minV = uint16(cl.res)
						}
					}
					ordered, _ := linearize(all, minV)
					emitHistory(emit, 1, int64(minV)-1, ordered)
					continue
				}
				s := rtp.NewFixedSequencer(uint16(start))
				all := concurrentRun(s, gs, per, 7)
				ordered, _ := linearize(all, uint16(start))
				emitHistory(emit, 0, start, ordered)
			}
		},
		Run: func(op int, toks []Tok) Outcome {
			var o Outcome
			if op == 704 {
				return runSharedSequencer(tokInt(toks[0]), tokList(toks[1]))
			}
			if op == 703 {
				// a recorded per-goroutine trace [[r0 v r1]...]: the replay of a concurrency violation
				var tr []triple
				for _, t := range tokList(toks[0]) {
					l := tokList(t)
					tr = append(tr, triple{l[0].(TInt).V.Uint64(), l[1].(TInt).V.Uint64(), l[2].(TInt).V.Uint64()})
				}
				o.Impl, o.Nontrivial = Unit, true
				if i, why := traceViolation(tr); i >= 0 {
					o.Fail = "concurrent history is not linearizable to a counter: " + why
				}
				return o
			}
			var kind int
			var start int64
			var ops []Tok
			if op == 701 {
				kind, start = int(tokInt(toks[0])), tokInt(toks[1])
				ops = tokList(toks[2])
			}
			var s rtp.Sequencer
			if op == 702 {
				// kind is the draw d, start is unused: NewRandomSequencer with a generator whose Intn(n)
				// returns min(d, n-1) and whose Uint32/Uint64 return d truncated to their width
				d := toks[0].(TInt).V
				restore := rtp.VerifSetRand(stubRand{d})
				s = rtp.NewRandomSequencer()
				restore()
				ops = tokList(toks[1])
				toks = toks[:2]
			} else if kind == 0 {
				s = rtp.NewFixedSequencer(uint16(start))
			} else {
				// a random sequencer cannot be re-created; its sequential semantics from the observed
				// draw are those of a fixed sequencer starting one above the draw
				s = rtp.NewFixedSequencer(uint16(start + 1))
				if start+1 < 0 || start+1 >= 32768 { // the first value handed out is start+1: anything below 2^15, 0 included
					o.Fail = fmt.Sprintf("random sequencer started at %d, not below 2^15", start+1)
				}
			}
			res := VList{}
			wraps := 0
			// the property's own statement on a sequential history: successive values, first value,
			// RollOverCount = number of zeros handed out, roc*65536+value strictly increasing
			nexts, zeros := 0, uint64(0)
			var firstV uint16
			lastExt := int64(-1)
			for i, t := range ops {
				if tokInt(t) == 0 {
					v := s.NextSequenceNumber()
					if v == 0 {
						wraps++
						zeros++
					}
					if nexts == 0 {
						firstV = v
						if op == 701 && kind == 0 && v != uint16(start) && o.Fail == "" {
							o.Fail = fmt.Sprintf("fixed sequencer started at %d: first value %d", start, v)
						}
						if op == 702 && v >= 1<<15 && o.Fail == "" {
							o.Fail = fmt.Sprintf("random sequencer: first value %d is not below 2^15", v)
						}
					} else if v != firstV+uint16(nexts) && o.Fail == "" {
						o.Fail = fmt.Sprintf("call %d: value %d, expected %d (gap or duplicate)", i, v, firstV+uint16(nexts))
					}
					nexts++
					roc := s.RollOverCount()
					ext := int64(roc)*65536 + int64(v)
					if ext <= lastExt && o.Fail == "" {
						o.Fail = fmt.Sprintf("call %d: RollOverCount*65536+value = %d does not increase (previous %d)", i, ext, lastExt)
					}
					lastExt = ext
					res = append(res, I(int64(v)))
				} else {
					roc := s.RollOverCount()
					if roc != zeros && o.Fail == "" {
						o.Fail = fmt.Sprintf("call %d: RollOverCount %d, but 0 has been handed out %d times", i, roc, zeros)
					}
					res = append(res, U(roc))
				}
			}
			o.Impl = res
			o.Nontrivial = true
			o.Tags = []string{fmt.Sprintf("kind %d wraps %d", kind, minInt(wraps, 3))}
			if len(toks) > 3 {
				obs := tokList(toks[3])
				for i := range obs {
					if i >= len(res) || obs[i].(TInt).V.Cmp(res[i].(VInt).V) != 0 {
						o.Fail = fmt.Sprintf("concurrent history is not linearizable: call %d observed %s, a counter gives %s", i, obs[i].(TInt).V, Render(res[i]))
						break
					}
				}
			}
			return o
		},
	})
}
