package main

import (
	"bytes"
	"fmt"

	"github.com/pion/rtp"
	"github.com/pion/rtp/codecs"
)

// C16: audio payloaders split losslessly; Opus is passed through.
// opcodes: 1601 g711 mtu payload | 1602 g722 | 1603 opus payloader | 1604 OpusPacket.Unmarshal
//          1606 kind [[mtu payload]...]  ONE payloader instance over several calls: what earlier calls returned
//               stays what it was, and a fragment handed back in as the next input is treated like any input

func sizeBucket(n int) string {
	switch {
	case n == 0:
		return "0"
	case n == 1:
		return "1"
	case n < 16:
		return "2-15"
	case n < 256:
		return "16-255"
	case n < 4096:
		return "256-4095"
	}
	return ">=4096"
}

// runPayloader calls p.Payload on a guarded copy of in and renders [[fresh? bytes]...].
// It reports a panic as the observable #2([]).
func runPayloader(p rtp.Payloader, mtu uint16, in []byte) (v Val, frags [][]byte, inputIntact bool, fresh bool, panicked bool) {
	g, buf := newGuarded(in)
	defer func() {
		if e := recover(); e != nil {
			v, panicked = PanicV(), true
		}
	}()
	out := p.Payload(mtu, buf)
	inputIntact = g.intact(in)
	fresh = true
	items := make(VList, len(out))
	for i, f := range out {
		own := !overlaps(f, g.whole)
		if !own {
			fresh = false
		}
		items[i] = L(Bool(own), B(f))
	}
	return OkV(items), out, inputIntact, fresh, false
}

// runPayloaderSeq: the per-call clauses of C16 on every call of a sequence through one instance, plus what
// only a sequence shows - a later call must not change a fragment an earlier call returned (each is "not
// aliasing the input" of ANY call, and equal to its own input for good), and a fragment fed back in as
// input (whole, or its tail) is an input like any other
func runPayloaderSeq(kind int, calls []Tok) Outcome {
	var o Outcome
	var p rtp.Payloader
	name := ""
	switch kind {
	case 0:
		p, name = &codecs.G711Payloader{}, "g711"
	case 1:
		p, name = &codecs.G722Payloader{}, "g722"
	default:
		p, name = &codecs.OpusPayloader{}, "opus"
	}
	fail := func(f string, a ...interface{}) {
		if o.Fail == "" {
			o.Fail = fmt.Sprintf(f, a...)
		}
	}
	type kept struct {
		frags [][]byte
		snap  [][]byte
	}
	var earlier []kept
	res := VList{}
	check := func(step int, mtu uint16, in []byte, frags [][]byte) {
		if in == nil {
			return
		}
		if kind == 2 {
			if len(frags) != 1 || !bytes.Equal(frags[0], in) {
				fail("call %d: opus: not exactly one fragment equal to the input", step)
			}
			return
		}
		if mtu >= 1 {
			var cat []byte
			for i, f := range frags {
				cat = append(cat, f...)
				if (i < len(frags)-1 && len(f) != int(mtu) && currentProp == "C16") || len(f) > int(mtu) {
					fail("call %d: fragment %d of %d has %d bytes at MTU %d", step, i, len(frags), len(f), mtu)
				}
			}
			if !bytes.Equal(cat, in) {
				fail("call %d: fragments do not concatenate to the input", step)
			}
		}
	}
	for step, c := range calls {
		l := tokList(c)
		mtu, in := uint16(tokInt(l[0])), tokBytes(l[1])
		v, frags, intact, fresh, panicked := runPayloader(p, mtu, in)
		res = append(res, v)
		if panicked {
			fail("call %d: panic", step)
			break
		}
		if !intact {
			fail("call %d: input modified", step)
		}
		if !fresh && (kind == 2 || currentProp != "C16") {
			fail("call %d: fragment aliases the input", step)
		}
		check(step, mtu, in, frags)
		k := kept{frags: frags}
		for _, f := range frags {
			k.snap = append(k.snap, append([]byte{}, f...))
		}
		earlier = append(earlier, k)
		for e, ke := range earlier {
			for i := range ke.frags {
				if !bytes.Equal(ke.frags[i], ke.snap[i]) && (kind == 2 || currentProp != "C16") {
					fail("call %d changed fragment %d returned by call %d (was %x, is %x)", step, i, e, ke.snap[i], ke.frags[i])
				}
			}
		}
	}
	// a fragment an earlier call returned, handed back in (the very slice, then its tail)
	if o.Fail == "" {
		for e, ke := range earlier {
			if len(ke.frags) == 0 || len(ke.frags[0]) == 0 || e > 2 {
				continue
			}
			for _, in := range [][]byte{ke.frags[0], ke.frags[0][len(ke.frags[0])/2:]} {
				want := append([]byte{}, in...)
				var out [][]byte
				if pn, what := catch(func() { out = p.Payload(uint16(len(want)+3), in) }); pn {
					fail("fragment of call %d fed back in: panic: %s", e, what)
					break
				}
				if !bytes.Equal(in, want) {
					fail("fragment of call %d fed back in: the input was modified", e)
				}
				if len(out) != 1 || !bytes.Equal(out[0], want) {
					fail("fragment of call %d fed back in (%d bytes, MTU %d): result is not one fragment equal to the input", e, len(want), len(want)+3)
				} else if overlaps(out[0], in) && (kind == 2 || currentProp != "C16") {
					fail("fragment of call %d fed back in: the result aliases its input", e)
				}
			}
		}
	}
	o.Impl = res
	o.Nontrivial = len(calls) >= 2
	o.Tags = []string{name + " call sequence"}
	return o
}

func init() {
	register(&Prop{
		ID:       "C16",
		Rule:     "lengths 0-10000 x MTU 1-65535 with mass on len = k*mtu +-1 and tiny MTUs, plus nil/empty inputs; one instance over 2-5 calls with sizes going up and down, earlier fragments re-read after every call and fed back in as input; exhaustive lengths 0-64 x MTU 1-66 in thorough; non-trivial = at least two fragments, or an OpusPacket case with a non-empty payload",
		Quick:    4000,
		Thorough: 120000,
		Gen: func(r *RNG, tier string, n int, emit func(op int, toks ...Tok)) {
			// boundary corpus
			for _, op := range []int{1601, 1602, 1603} {
				emit(op, TI(0), TB([]byte{1, 2, 3}))
				emit(op, TI(5), TB(nil))
				emit(op, TI(5), TB([]byte{}))
				emit(op, TI(1), TB([]byte{9, 8, 7}))
				emit(op, TI(3), TB([]byte{1, 2, 3, 4, 5, 6}))
				emit(op, TI(65535), TB(make([]byte, 70000)))
				// length + MTU around 2^16 (16-bit arithmetic on sizes must not wrap)
				emit(op, TI(65535), TB([]byte{1, 2}))
				emit(op, TI(65534), TB([]byte{1, 2, 3}))
				emit(op, TI(65000), TB(make([]byte, 1000)))
				emit(op, TI(55537), TB(make([]byte, 10000)))
				emit(op, TI(55536), TB(make([]byte, 10000)))
				emit(op, TI(32768), TB(make([]byte, 32769)))
				emit(op, TI(1), TB(make([]byte, 300)))
			}
			emit(1604, TB(nil))
			emit(1604, TB([]byte{}))
			// one receiver over several payloads, rejected ones in between
			emit(1605, TList{TB(nil), TB([]byte{1})})
			emit(1605, TList{TB([]byte{}), TB([]byte{3, 4}), TB(nil), TB([]byte{})})
			emit(1605, TList{TB([]byte{0x78, 9}), TB([]byte{}), TB([]byte{0xFF})})
			emit(1604, TB([]byte{0}))
			// OpusPacket.Unmarshal: every one-byte payload (all 256 TOC bytes) and every TOC with a
			// second byte from a boundary alphabet
			for b := 0; b < 256; b++ {
				emit(1604, TB([]byte{byte(b)}))
				for _, x := range []byte{0, 1, 0x7F, 0x80, 0xFF} {
					emit(1604, TB([]byte{byte(b), x}))
				}
			}
			if tier == "thorough" {
				for l := 0; l <= 64; l++ {
					for mtu := 1; mtu <= 66; mtu++ {
						emit(1601+(l+mtu)%2, TI(int64(mtu)), TB(r.Bytes(l)))
					}
				}
			}
			// one instance over several calls: sizes going up and down (a kept buffer would be reused)
			for kind := int64(0); kind <= 2; kind++ {
				emit(1606, TI(kind), TList{TList{TI(4), TB([]byte{1, 2, 3, 4, 5, 6, 7, 8, 9})}, TList{TI(4), TB([]byte{0xA1, 0xA2, 0xA3})}, TList{TI(2), TB([]byte{0xB1, 0xB2, 0xB3, 0xB4, 0xB5})}})
			}
			for i := 0; i < n; i++ {
				c := r.Fork(uint64(i))
				op := c.Pick(1601, 1601, 1602, 1602, 1603, 1604)
				if i%8 == 0 {
					calls := TList{}
					for k, kn := 0, 2+c.Intn(4); k < kn; k++ {
						var b []byte
						if c.Intn(8) != 0 {
							b = c.Bytes(c.Pick(1, 2, 3, 1+c.Intn(40), 1+c.Intn(300)))
						}
						calls = append(calls, TList{TI(int64(c.Pick(1, 2, 3, 7, 1+c.Intn(50), 1200))), TB(b)})
					}
					emit(1606, TI(int64(c.Intn(3))), calls)
					continue
				}
				if op == 1604 && c.Intn(3) == 0 {
					seq := TList{}
					for k, kn := 0, 2+c.Intn(4); k < kn; k++ {
						switch c.Intn(4) {
						case 0:
							seq = append(seq, TB(nil))
						case 1:
							seq = append(seq, TB([]byte{}))
						default:
							seq = append(seq, TB(c.Bytes(1+c.Intn(6))))
						}
					}
					emit(1605, seq)
					continue
				}
				if op == 1604 {
					var b []byte
					switch c.Intn(6) {
					case 0:
						b = nil
					case 1:
						b = []byte{}
					default:
						b = c.Bytes(1 + c.Intn(300))
					}
					emit(op, TB(b))
					continue
				}
				var mtu, l int
				switch c.Intn(5) {
				case 0:
					mtu = 1 + c.Intn(8)
					l = c.Intn(40)
				case 1: // len = k*mtu + d
					mtu = 1 + c.Intn(400)
					l = mtu*c.Intn(8) + c.Pick(-1, 0, 1)
					if l < 0 {
						l = 0
					}
				case 2:
					mtu = 1 + c.Intn(65535)
					l = c.Intn(10001)
				case 3:
					mtu = c.Pick(1, 2, 1200, 1500, 65535)
					l = c.Intn(10001)
				default:
					mtu = 1 + c.Intn(2000)
					l = c.Intn(3000)
				}
				// the model re-measures the remaining input on every iteration: keep the
				// number of fragments below ~400 so that one case stays in the milliseconds
				if l/mtu > 400 {
					l = mtu*400 + l%mtu
				}
				var b []byte
				if c.Intn(40) == 0 {
					b = nil
				} else {
					b = c.Bytes(l)
				}
				emit(op, TI(int64(mtu)), TB(b))
			}
		},
		Run: func(op int, toks []Tok) Outcome {
			var o Outcome
			if op == 1605 {
				// one OpusPacket receiver over a sequence of payloads; head/tail queried after every call
				d := &codecs.OpusPacket{}
				res := VList{}
				for i, t := range tokList(toks[0]) {
					in := tokBytes(t)
					g, buf := newGuarded(in)
					out, err := d.Unmarshal(buf)
					head, tail0, tail1 := d.IsPartitionHead(buf), d.IsPartitionTail(false, buf), d.IsPartitionTail(true, buf)
					probe := []byte{0x78, 1, 2}
					headP, tailP := d.IsPartitionHead(probe), d.IsPartitionTail(false, probe)
					if err != nil {
						res = append(res, L(errV(err), Bool(head), Bool(tail0)))
					} else {
						res = append(res, L(OkV(L(Bool(!overlaps(out, g.whole)), B(out))), Bool(head), Bool(tail0)))
					}
					switch {
					case (in == nil || len(in) == 0) != (err != nil):
						o.Fail = fmt.Sprintf("step %d: nil/empty must be rejected and only those", i)
					case err == nil && !bytes.Equal(out, in):
						o.Fail = fmt.Sprintf("step %d: payload not returned unchanged", i)
					case err == nil && !bytes.Equal(d.Payload, in) && currentProp != "C16":
						// "a reused receiver gives the same result and metadata as a fresh one": the Payload field of a
						// fresh receiver is this payload
						o.Fail = fmt.Sprintf("step %d: the receiver's Payload field holds %x after decoding %x", i, d.Payload, in)
					case !head || !tail0 || !tail1 || !headP || !tailP:
						o.Fail = fmt.Sprintf("step %d: partition head/tail not reported (head=%v tail=%v/%v, on another payload %v/%v)", i, head, tail0, tail1, headP, tailP)
					}
					if !g.intact(in) {
						o.Fail = "input modified"
					}
				}
				o.Impl, o.Nontrivial = res, true
				o.Tags = []string{"opus-receiver-sequence"}
				return o
			}
			if op == 1604 {
				in := tokBytes(toks[0])
				g, buf := newGuarded(in)
				d := &codecs.OpusPacket{}
				out, err := d.Unmarshal(buf)
				switch {
				case err != nil:
					o.Impl = errV(err)
				default:
					o.Impl = OkV(L(L(Bool(!overlaps(out, g.whole)), B(out)), Bool(d.IsPartitionHead(buf)), Bool(d.IsPartitionTail(false, buf))))
				}
				// oracle
				switch {
				case in == nil || len(in) == 0:
					if err == nil {
						o.Fail = "nil/empty payload accepted"
					}
				default:
					if err != nil || !bytes.Equal(out, in) {
						o.Fail = "non-empty payload not returned unchanged"
					}
					if !d.IsPartitionHead(buf) || !d.IsPartitionTail(false, buf) || !d.IsPartitionTail(true, buf) {
						o.Fail = "partition head/tail not reported"
					}
					o.Nontrivial = true
				}
				if !g.intact(in) {
					o.Fail = "input modified"
				}
				o.Tags = []string{"opus-unmarshal len " + sizeBucket(len(in))}
				return o
			}
			if op == 1606 {
				return runPayloaderSeq(int(tokInt(toks[0])), tokList(toks[1]))
			}
			mtu := uint16(tokInt(toks[0]))
			in := tokBytes(toks[1])
			var p rtp.Payloader
			name := ""
			switch op {
			case 1601:
				p, name = &codecs.G711Payloader{}, "g711"
			case 1602:
				p, name = &codecs.G722Payloader{}, "g722"
			case 1603:
				p, name = &codecs.OpusPayloader{}, "opus"
			}
			v, frags, intact, fresh, panicked := runPayloader(p, mtu, in)
			o.Impl = v
			o.Tags = []string{name + " len " + sizeBucket(len(in)), fmt.Sprintf("%s frags %s", name, sizeBucket(len(frags)))}
			if panicked {
				o.Fail = "panic"
				return o
			}
			if !intact {
				o.Fail = "input modified"
			}
			if !fresh && (op == 1603 || currentProp != "C16") {
				// C16 asks "not aliasing the input" of Opus; for G711 and G722 it is C08's clause
				o.Fail = "fragment aliases the input"
			}
			if op == 1603 {
				if in != nil && (len(frags) != 1 || !bytes.Equal(frags[0], in)) {
					o.Fail = "opus: not exactly one fragment equal to the input"
				}
				o.Nontrivial = len(in) > 0
				return o
			}
			if mtu >= 1 && in != nil {
				var cat []byte
				for i, f := range frags {
					cat = append(cat, f...)
					if i < len(frags)-1 && len(f) != int(mtu) && currentProp == "C16" {
						// "every fragment except the last is exactly MTU bytes long" is C16's clause; C08 asks for at most MTU
						o.Fail = fmt.Sprintf("fragment %d of %d has %d bytes, not MTU %d", i, len(frags), len(f), mtu)
					}
					if len(f) > int(mtu) {
						o.Fail = "fragment exceeds MTU"
					}
				}
				if !bytes.Equal(cat, in) {
					o.Fail = "fragments do not concatenate to the input"
				}
				if currentProp != "C16" && len(in) > 0 {
					// C08: "non-empty whenever the input is non-empty" (C16 does not ask it: an empty last fragment
					// still concatenates to the input)
					for i, f := range frags {
						if len(f) == 0 {
							o.Fail = fmt.Sprintf("fragment %d of %d is empty", i, len(frags))
						}
					}
				}
				o.Nontrivial = len(frags) >= 2
			}
			return o
		},
	})
}
