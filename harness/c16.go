package main

import (
	"bytes"
	"fmt"

	"github.com/pion/rtp"
	"github.com/pion/rtp/codecs"
)

// C16: audio payloaders split losslessly; Opus is passed through.
// opcodes: 1601 g711 mtu payload | 1602 g722 | 1603 opus payloader | 1604 OpusPacket.Unmarshal

func sizeBucket(n int) string {
	switch {
	case n == 0:
		return "0"
	case n == 1:
		return "1"
	case n < 16:
		return "2-15"
	case n < 256:
		return "16-255"
	case n < 4096:
		return "256-4095"
	}
	return ">=4096"
}

// runPayloader calls p.Payload on a guarded copy of in and renders [[fresh? bytes]...].
// It reports a panic as the observable #2([]).
func runPayloader(p rtp.Payloader, mtu uint16, in []byte) (v Val, frags [][]byte, inputIntact bool, fresh bool, panicked bool) {
	g, buf := newGuarded(in)
	defer func() {
		if e := recover(); e != nil {
			v, panicked = PanicV(), true
		}
	}()
	out := p.Payload(mtu, buf)
	inputIntact = g.intact(in)
	fresh = true
	items := make(VList, len(out))
	for i, f := range out {
		own := !overlaps(f, g.whole)
		if !own {
			fresh = false
		}
		items[i] = L(Bool(own), B(f))
	}
	return OkV(items), out, inputIntact, fresh, false
}

func init() {
	register(&Prop{
		ID:       "C16",
		Rule:     "lengths 0-10000 x MTU 1-65535 with mass on len = k*mtu +-1 and tiny MTUs, plus nil/empty inputs; exhaustive lengths 0-64 x MTU 1-66 in thorough; non-trivial = at least two fragments, or an OpusPacket case with a non-empty payload",
		Quick:    4000,
		Thorough: 120000,
		Gen: func(r *RNG, tier string, n int, emit func(op int, toks ...Tok)) {
			// boundary corpus
			for _, op := range []int{1601, 1602, 1603} {
				emit(op, TI(0), TB([]byte{1, 2, 3}))
				emit(op, TI(5), TB(nil))
				emit(op, TI(5), TB([]byte{}))
				emit(op, TI(1), TB([]byte{9, 8, 7}))
				emit(op, TI(3), TB([]byte{1, 2, 3, 4, 5, 6}))
				emit(op, TI(65535), TB(make([]byte, 70000)))
				// length + MTU around 2^16 (16-bit arithmetic on sizes must not wrap)
				emit(op, TI(65535), TB([]byte{1, 2}))
				emit(op, TI(65534), TB([]byte{1, 2, 3}))
				emit(op, TI(65000), TB(make([]byte, 1000)))
				emit(op, TI(55537), TB(make([]byte, 10000)))
				emit(op, TI(55536), TB(make([]byte, 10000)))
				emit(op, TI(32768), TB(make([]byte, 32769)))
				emit(op, TI(1), TB(make([]byte, 300)))
			}
			emit(1604, TB(nil))
			emit(1604, TB([]byte{}))
			// one receiver over several payloads, rejected ones in between
			emit(1605, TList{TB(nil), TB([]byte{1})})
			emit(1605, TList{TB([]byte{}), TB([]byte{3, 4}), TB(nil), TB([]byte{})})
			emit(1605, TList{TB([]byte{0x78, 9}), TB([]byte{}), TB([]byte{0xFF})})
			emit(1604, TB([]byte{0}))
			// OpusPacket.Unmarshal: every one-byte payload (all 256 TOC bytes) and every TOC with a
			// second byte from a boundary alphabet
			for b := 0; b < 256; b++ {
				emit(1604, TB([]byte{byte(b)}))
				for _, x := range []byte{0, 1, 0x7F, 0x80, 0xFF} {
					emit(1604, TB([]byte{byte(b), x}))
				}
			}
			if tier == "thorough" {
				for l := 0; l <= 64; l++ {
					for mtu := 1; mtu <= 66; mtu++ {
						emit(1601+(l+mtu)%2, TI(int64(mtu)), TB(r.Bytes(l)))
					}
				}
			}
			for i := 0; i < n; i++ {
				c := r.Fork(uint64(i))
				op := c.Pick(1601, 1601, 1602, 1602, 1603, 1604)
				if op == 1604 && c.Intn(3) == 0 {
					seq := TList{}
					for k, kn := 0, 2+c.Intn(4); k < kn; k++ {
						switch c.Intn(4) {
						case 0:
							seq = append(seq, TB(nil))
						case 1:
							seq = append(seq, TB([]byte{}))
						default:
							seq = append(seq, TB(c.Bytes(1+c.Intn(6))))
						}
					}
					emit(1605, seq)
					continue
				}
				if op == 1604 {
					var b []byte
					switch c.Intn(6) {
					case 0:
						b = nil
					case 1:
						b = []byte{}
					default:
						b = c.Bytes(1 + c.Intn(300))
					}
					emit(op, TB(b))
					continue
				}
				var mtu, l int
				switch c.Intn(5) {
				case 0:
					mtu = 1 + c.Intn(8)
					l = c.Intn(40)
				case 1: // len = k*mtu + d
					mtu = 1 + c.Intn(400)
					l = mtu*c.Intn(8) + c.Pick(-1, 0, 1)
					if l < 0 {
						l = 0
					}
				case 2:
					mtu = 1 + c.Intn(65535)
					l = c.Intn(10001)
				case 3:
					mtu = c.Pick(1, 2, 1200, 1500, 65535)
					l = c.Intn(10001)
				default:
					mtu = 1 + c.Intn(2000)
					l = c.Intn(3000)
				}
				// the model re-measures the remaining input on every iteration: keep the
				// number of fragments below ~400 so that one case stays in the milliseconds
				if l/mtu > 400 {
					l = mtu*400 + l%mtu
				}
				var b []byte
				if c.Intn(40) == 0 {
					b = nil
				} else {
					b = c.Bytes(l)
				}
				emit(op, TI(int64(mtu)), TB(b))
			}
		},
		Run: func(op int, toks []Tok) Outcome {
			var o Outcome
			if op == 1605 {
				// one OpusPacket receiver over a sequence of payloads; head/tail queried after every call
				d := &codecs.OpusPacket{}
				res := VList{}
				for i, t := range tokList(toks[0]) {
					in := tokBytes(t)
					g, buf := newGuarded(in)
					out, err := d.Unmarshal(buf)
					head, tail0, tail1 := d.IsPartitionHead(buf), d.IsPartitionTail(false, buf), d.IsPartitionTail(true, buf)
					probe := []byte{0x78, 1, 2}
					headP, tailP := d.IsPartitionHead(probe), d.IsPartitionTail(false, probe)
					if err != nil {
						res = append(res, L(errV(err), Bool(head), Bool(tail0)))
					} else {
						res = append(res, L(OkV(L(Bool(!overlaps(out, g.whole)), B(out))), Bool(head), Bool(tail0)))
					}
					switch {
					case (in == nil || len(in) == 0) != (err != nil):
						o.Fail = fmt.Sprintf("step %d: nil/empty must be rejected and only those", i)
					case err == nil && !bytes.Equal(out, in):
						o.Fail = fmt.Sprintf("step %d: payload not returned unchanged", i)
					case !head || !tail0 || !tail1 || !headP || !tailP:
						o.Fail = fmt.Sprintf("step %d: partition head/tail not reported (head=%v tail=%v/%v, on another payload %v/%v)", i, head, tail0, tail1, headP, tailP)
					}
					if !g.intact(in) {
						o.Fail = "input modified"
					}
				}
				o.Impl, o.Nontrivial = res, true
				o.Tags = []string{"opus-receiver-sequence"}
				return o
			}
			if op == 1604 {
				in := tokBytes(toks[0])
				g, buf := newGuarded(in)
				d := &codecs.OpusPacket{}
				out, err := d.Unmarshal(buf)
				switch {
				case err != nil:
					o.Impl = errV(err)
				default:
					o.Impl = OkV(L(L(Bool(!overlaps(out, g.whole)), B(out)), Bool(d.IsPartitionHead(buf)), Bool(d.IsPartitionTail(false, buf))))
				}
				// oracle
				switch {
				case in == nil || len(in) == 0:
					if err == nil {
						o.Fail = "nil/empty payload accepted"
					}
				default:
					if err != nil || !bytes.Equal(out, in) {
						o.Fail = "non-empty payload not returned unchanged"
					}
					if !d.IsPartitionHead(buf) || !d.IsPartitionTail(false, buf) || !d.IsPartitionTail(true, buf) {
						o.Fail = "partition head/tail not reported"
					}
					o.Nontrivial = true
				}
				if !g.intact(in) {
					o.Fail = "input modified"
				}
				o.Tags = []string{"opus-unmarshal len " + sizeBucket(len(in))}
				return o
			}
			mtu := uint16(tokInt(toks[0]))
			in := tokBytes(toks[1])
			var p rtp.Payloader
			name := ""
			switch op {
			case 1601:
				p, name = &codecs.G711Payloader{}, "g711"
			case 1602:
				p, name = &codecs.G722Payloader{}, "g722"
			case 1603:
				p, name = &codecs.OpusPayloader{}, "opus"
			}
			v, frags, intact, fresh, panicked := runPayloader(p, mtu, in)
			o.Impl = v
			o.Tags = []string{name + " len " + sizeBucket(len(in)), fmt.Sprintf("%s frags %s", name, sizeBucket(len(frags)))}
			if panicked {
				o.Fail = "panic"
				return o
			}
			if !intact {
				o.Fail = "input modified"
			}
			if !fresh {
				o.Fail = "fragment aliases the input"
			}
			if op == 1603 {
				if in != nil && (len(frags) != 1 || !bytes.Equal(frags[0], in)) {
					o.Fail = "opus: not exactly one fragment equal to the input"
				}
				o.Nontrivial = len(in) > 0
				return o
			}
			if mtu >= 1 && in != nil {
				var cat []byte
				for i, f := range frags {
					cat = append(cat, f...)
					if i < len(frags)-1 && len(f) != int(mtu) {
						o.Fail = fmt.Sprintf("fragment %d of %d has %d bytes, not MTU %d", i, len(frags), len(f), mtu)
					}
					if len(f) > int(mtu) {
						o.Fail = "fragment exceeds MTU"
					}
				}
				if !bytes.Equal(cat, in) {
					o.Fail = "fragments do not concatenate to the input"
				}
				o.Nontrivial = len(frags) >= 2
			}
			return o
		},
	})
}
