package main

import (
	"encoding/hex"
	"fmt"
	"math/big"
	"strconv"
	"strings"
)

// ParseCase parses "<op> tok tok ..." as written by CaseLine.
func ParseCase(line string) (int, []Tok, error) {
	words := strings.Fields(line)
	if len(words) == 0 {
		return 0, nil, fmt.Errorf("empty case")
	}
	op, err := strconv.Atoi(words[0])
	if err != nil {
		return 0, nil, err
	}
	toks, rest, err := parseToks(words[1:])
	if err != nil {
		return 0, nil, err
	}
	if len(rest) != 0 {
		return 0, nil, fmt.Errorf("unbalanced ]")
	}
	return op, toks, nil
}

func parseToks(words []string) ([]Tok, []string, error) {
	var out []Tok
	for len(words) > 0 {
		w := words[0]
		words = words[1:]
		switch {
		case w == "]":
			return out, append([]string{"]"}, words...), nil
		case w == "[":
			inner, rest, err := parseToks(words)
			if err != nil {
				return nil, nil, err
			}
			if len(rest) == 0 || rest[0] != "]" {
				return nil, nil, fmt.Errorf("missing ]")
			}
			words = rest[1:]
			out = append(out, TList(inner))
		case w == "-":
			out = append(out, TNil{})
		case w[0] == 'x':
			b, err := hex.DecodeString(w[1:])
			if err != nil {
				return nil, nil, err
			}
			if b == nil {
				b = []byte{}
			}
			out = append(out, TBytes(b))
		default:
			n, ok := new(big.Int).SetString(w, 10)
			if !ok {
				return nil, nil, fmt.Errorf("bad token %q", w)
			}
			out = append(out, TInt{n})
		}
	}
	return out, nil, nil
}

// accessors used by the per-property runners; a malformed case panics and is reported as such.
func tokInt(t Tok) int64 { return t.(TInt).V.Int64() }
func tokU64(t Tok) uint64 { return t.(TInt).V.Uint64() }
func tokBytes(t Tok) []byte {
	switch v := t.(type) {
	case TBytes:
		if v == nil {
			return []byte{}
		}
		return []byte(v)
	case TNil:
		return nil
	}
	panic("not a byte token")
}
func tokList(t Tok) []Tok { return []Tok(t.(TList)) }
