package main

import (
	"bytes"
	"fmt"

	"github.com/pion/rtp"
)

// C02: RTP parsing is memory-safe and bounded on arbitrary input; receiver reuse is harmless.
// opcodes: 101 [bufs]  Packet.Unmarshal of each buffer into one receiver
//          102 [bufs]  Header.Unmarshal of each buffer into one receiver
// After an error the receiver is replaced by a fresh one (its state is unspecified then).

// wireElements walks the extension block of an accepted input the way RFC 8285 4.2 / 4.3 lay it out
// (zero bytes are padding; a one-byte element is a header byte id<<4|len-1 and its value, reading stops
// at the reserved id 15; a two-byte element is id, length, value; any other profile is one value) and
// returns, per id, where its first element's value lies in the input.  It reads the INPUT, not the
// decoded packet: the offsets it reports do not depend on whether the decoder hands out windows of
// the input or copies (the property asks for the bytes, not for their address).
type wireElem struct{ off, n int }

func wireElements(buf []byte) map[uint8]wireElem {
	out := map[uint8]wireElem{}
	if len(buf) < 12 || buf[0]&0x10 == 0 {
		return out
	}
	pos := 12 + 4*int(buf[0]&0x0F)
	if len(buf) < pos+4 {
		return out
	}
	profile := int(buf[pos])<<8 | int(buf[pos+1])
	start := pos + 4
	end := start + 4*(int(buf[pos+2])<<8|int(buf[pos+3]))
	if end > len(buf) {
		end = len(buf)
	}
	add := func(id uint8, off, n int) {
		if _, seen := out[id]; !seen {
			out[id] = wireElem{off, n}
		}
	}
	switch {
	case profile == 0xBEDE:
		for q := start; q < end; {
			b := buf[q]
			if b == 0 {
				q++
				continue
			}
			if b>>4 == 15 {
				break
			}
			add(b>>4, q+1, int(b&15)+1)
			q += 2 + int(b&15)
		}
	case profile&0xFFF0 == 0x1000:
		for q := start; q+1 < end; {
			if buf[q] == 0 {
				q++
				continue
			}
			add(buf[q], q+2, int(buf[q+1]))
			q += 2 + int(buf[q+1])
		}
	default:
		add(0, start, end-start)
	}
	return out
}

// vOffsets: for every id the decoded header lists, the offset of its value in the input (-1 for an
// empty value, -3 if the input has no such element), and checkValues: the decoded value IS those bytes
func vOffsets(h *rtp.Header, buf []byte) Val {
	w := wireElements(buf)
	out := VList{}
	for _, id := range h.GetExtensionIDs() {
		e, ok := w[id]
		switch {
		case !ok:
			out = append(out, I(-3))
		case e.n == 0:
			out = append(out, I(-1))
		default:
			out = append(out, I(int64(e.off)))
		}
	}
	return out
}

func checkValues(h *rtp.Header, buf []byte, hdrLen int) string {
	w := wireElements(buf)
	for _, id := range h.GetExtensionIDs() {
		v := h.GetExtension(id)
		e, ok := w[id]
		if !ok || e.n != len(v) || e.off < 12 || e.off+e.n > hdrLen || e.off+e.n > len(buf) || !bytes.Equal(v, buf[e.off:e.off+e.n]) {
			return fmt.Sprintf("extension %d: value %x is not the input bytes of that element (input has %v)", id, v, e)
		}
	}
	return ""
}

func wfWire(r *RNG) []byte {
	d, pl, pad := genWfPacket(r)
	h, err := d.build()
	if err != nil {
		return r.Bytes(12)
	}
	p := rtp.Packet{Header: h, Payload: pl, PaddingSize: byte(pad)}
	b, err := p.Marshal()
	if err != nil {
		return r.Bytes(12)
	}
	return b
}

func hostileBuf(r *RNG) []byte {
	switch r.Intn(6) {
	case 0: // random
		return r.Bytes(r.Pick(r.Intn(40), r.Intn(40), r.Intn(300)))
	case 1: // truncated valid
		b := wfWire(r)
		return b[:r.Intn(len(b)+1)]
	case 2: // bit-flipped valid
		b := wfWire(r)
		for k := 0; k < 1+r.Intn(3); k++ {
			i := r.Intn(len(b))
			if r.Intn(3) == 0 && i > 16 {
				i = r.Intn(16)
			}
			b[i] ^= 1 << uint(r.Intn(8))
		}
		return b
	case 3: // structured: header with X bit, chosen profile, hostile block
		cc := r.Pick(0, 0, 1, 15, r.Intn(16))
		b := []byte{byte(0x90 | cc | r.Pick(0, 0x20)), byte(r.Intn(256))}
		b = append(b, r.Bytes(10+4*cc)...)
		prof := [][]byte{{0xBE, 0xDE}, {0x10, 0x00}, {0x12, 0x34}, {0x10, byte(1 + r.Intn(15))}, {0x10, 0x10}}[r.Intn(5)]
		b = append(b, prof...)
		words := r.Pick(0, 1, 1, 2, 3, 200, 0x4000, 0x8001, 0xC000, 0xFFFF)
		b = append(b, byte(words>>8), byte(words))
		body := make([]byte, r.Pick(r.Intn(16), r.Intn(16), r.Intn(80)))
		for i := range body {
			body[i] = byte(r.Pick(0, 0, 0x10, 0x1F, 0xF0, 0xFF, 1, 2, 3, 255, r.Intn(256)))
		}
		return append(b, body...)
	case 4: // valid
		return wfWire(r)
	}
	// short
	return r.Bytes(r.Intn(13))
}

func runUnmarshalSeq(pkt bool, bufs [][]byte) (o Outcome) {
	var p rtp.Packet
	var h rtp.Header
	results := VList{}
	afterReject := false
	var earlier []*guarded // the caller's buffers of the earlier steps: decoding a later input must not write into them
	defer func() {
		for k, g := range earlier {
			if !g.intact(bufs[k]) && o.Fail == "" {
				o.Fail = fmt.Sprintf("the input buffer of step %d was written to by a later step", k)
			}
		}
	}()
	for step, in := range bufs {
		g, buf := newGuarded(in)
		earlier = append(earlier, g)
		var err error
		var n int
		pn, what := catch(func() {
			if pkt {
				err = p.Unmarshal(buf)
			} else {
				n, err = h.Unmarshal(buf)
			}
		})
		if pn {
			results = append(results, PanicV())
			o.Fail = fmt.Sprintf("step %d: panic: %s", step, what)
			p, h = rtp.Packet{}, rtp.Header{}
			continue
		}
		if !g.intact(in) {
			o.Fail = fmt.Sprintf("step %d: input modified", step)
		}
		if err != nil {
			// the receiver is KEPT: whatever a rejected input left in it must not show in the next result
			results = append(results, errV(err))
			o.Tags = append(o.Tags, "rejected")
			afterReject = true
			continue
		}
		o.Tags = append(o.Tags, "accepted")
		if afterReject {
			o.Tags = append(o.Tags, "accepted into a receiver that had rejected an input")
		}
		o.Nontrivial = true
		// the header length the wire itself declares (RFC 3550 5.1 / 5.3.1), computed here
		declared := 12 + 4*int(buf[0]&0x0F)
		oneByte := false
		if buf[0]&0x10 != 0 && len(buf) >= declared+4 {
			oneByte = buf[declared] == 0xBE && buf[declared+1] == 0xDE
			declared += 4 + 4*(int(buf[declared+2])<<8|int(buf[declared+3]))
		}
		checkDeclared := func(n int) {
			switch {
			case declared > len(buf):
				o.Fail = fmt.Sprintf("step %d: accepted although the declared header length %d exceeds the %d input bytes", step, declared, len(buf))
			case currentProp != "C03":
				// that the payload starts right behind the block the wire declares is C03's clause ("lies inside the
				// input" is C02's, checked above and below)
			case n > declared || (n < declared && !oneByte):
				// n < declared happens only for the one-byte profile's reserved id 15 (KF-C03-reserved15);
				// since fix D23 an element that overruns its block is rejected, so n never exceeds it
				o.Fail = fmt.Sprintf("step %d: header length %d, the wire declares %d", step, n, declared)
			}
		}
		// every decoded element is listed by GetExtensionIDs (id 0 of a legacy block or of a one-byte element
		// included: only the byte 0x00 is padding), in order, and its value is reachable through GetExtension
		checkIDs := func(hh *rtp.Header) {
			ids := hh.GetExtensionIDs()
			if hh.Extension && len(ids) != len(hh.Extensions) && o.Fail == "" {
				o.Fail = fmt.Sprintf("step %d: %d extension elements decoded, GetExtensionIDs lists %d", step, len(hh.Extensions), len(ids))
			}
			if currentProp == "C03" && hh.Extension && hh.ExtensionProfile != 0xBEDE && !isTwoByte(hh.ExtensionProfile) && !(len(ids) == 1 && ids[0] == 0) && o.Fail == "" {
				o.Fail = fmt.Sprintf("step %d: legacy extension block (profile %#04x): GetExtensionIDs = %v, expected [0]", step, hh.ExtensionProfile, ids)
			}
		}
		if pkt {
			checkIDs(&p.Header)
		} else {
			checkIDs(&h)
		}
		if pkt {
			n = len(buf) - len(p.Payload) - int(p.PaddingSize)
			checkDeclared(n)
			results = append(results, OkV(L(vPacket(&p), I(int64(n)), vOffsets(&p.Header, buf))))
			// bounds
			if n < 0 || n > len(buf) {
				o.Fail = fmt.Sprintf("step %d: header+payload+padding does not add up to the input length", step)
			} else if !bytes.Equal(p.Payload, buf[n:n+len(p.Payload)]) {
				o.Fail = fmt.Sprintf("step %d: payload is not the input bytes after the header", step)
			} else if why := checkValues(&p.Header, buf, n); why != "" {
				o.Fail = fmt.Sprintf("step %d: %s", step, why)
			}
			// re-encoding (C03): Marshal reports invalid padding (P bit, count 0) or yields bytes that decode equal
			if currentProp != "C03" {
				// re-encoding is C03's clause
			} else if b2, merr := p.Marshal(); merr != nil {
				if !(p.Padding && p.PaddingSize == 0) {
					o.Fail = fmt.Sprintf("step %d: accepted input cannot be re-marshalled: %v", step, merr)
				}
			} else {
				var q2 rtp.Packet
				if e2 := q2.Unmarshal(b2); e2 != nil || !hdrEquivalent(&p.Header, &q2.Header) || !bytes.Equal(p.Payload, q2.Payload) || p.PaddingSize != q2.PaddingSize {
					o.Fail = fmt.Sprintf("step %d: re-marshalled bytes do not decode to an equal packet", step)
				}
			}
			// reuse: same as a fresh receiver
			var q rtp.Packet
			if e2 := q.Unmarshal(buf); e2 != nil || !hdrEquivalent(&p.Header, &q.Header) || !bytes.Equal(p.Payload, q.Payload) || p.PaddingSize != q.PaddingSize {
				o.Fail = fmt.Sprintf("step %d: reused receiver differs from a fresh one", step)
			}
		} else {
			results = append(results, OkV(L(vHeader(&h), I(int64(n)), vOffsets(&h, buf))))
			if n < 12 || n > len(buf) {
				o.Fail = fmt.Sprintf("step %d: n=%d outside the input", step, n)
			} else if why := checkValues(&h, buf, n); why != "" {
				o.Fail = fmt.Sprintf("step %d: %s", step, why)
			}
			checkDeclared(n)
			var q rtp.Header
			n2, e2 := q.Unmarshal(buf)
			if e2 != nil || n2 != n || !hdrEquivalent(&h, &q) {
				o.Fail = fmt.Sprintf("step %d: reused receiver differs from a fresh one", step)
			}
		}
	}
	o.Impl = results
	return o
}

func init() {
	register(&Prop{
		ID:       "C02",
		Rule:     "sequences of 1-3 byte strings (every fifth case: 3-6 mostly valid packets with varying CSRC counts and extension kinds) decoded into one receiver: random, truncated and bit-flipped valid packets, structured hostile extension blocks (boundary alphabet 00/10/1F/F0/FF, declared lengths 0-200 words), valid packets; all strings of length <= 2 (quick) / <= 3 (thorough) after 24 first-byte classes; non-trivial = at least one step accepted",
		Quick:    8000,
		Thorough: 600000,
		Gen: func(r *RNG, tier string, n int, emit func(op int, toks ...Tok)) {
			// exhaustive short strings behind a minimal header prefix and bare
			prefixes := [][]byte{{}, {0x80, 0, 0, 0, 0, 0, 0, 0, 0, 0, 0, 0}, {0x90, 0, 0, 0, 0, 0, 0, 0, 0, 0, 0, 0}, {0xB0, 0, 0, 0, 0, 0, 0, 0, 0, 0, 0, 0},
				{0x90, 0, 0, 0, 0, 0, 0, 0, 0, 0, 0, 0, 0xBE, 0xDE, 0, 1}, {0x90, 0, 0, 0, 0, 0, 0, 0, 0, 0, 0, 0, 0x10, 0, 0, 1}}
			maxLen := 2
			alphabet := []int{0, 1, 0x0F, 0x10, 0x11, 0x1F, 0x7F, 0x80, 0xF0, 0xFF}
			if tier == "thorough" {
				maxLen = 3
			}
			var rec func(prefix []byte, cur []byte, depth int)
			rec = func(prefix, cur []byte, depth int) {
				b := append(append([]byte{}, prefix...), cur...)
				emit(101, TList{TB(b)})
				emit(102, TList{TB(b)})
				if depth == maxLen {
					return
				}
				for _, a := range alphabet {
					rec(prefix, append(append([]byte{}, cur...), byte(a)), depth+1)
				}
			}
			for _, pre := range prefixes {
				rec(pre, nil, 0)
			}
			// one-byte elements with id 0 and a non-zero length nibble (0x0L is not a padding byte): the
			// decoder yields an element with id 0, which only Unmarshal can create; it must re-marshal
			hdr12 := []byte{0x90, 0x60, 0, 1, 0, 0, 0, 2, 0, 0, 0, 3}
			id0a := append(append([]byte{}, hdr12...), 0xBE, 0xDE, 0, 1, 0x01, 0xAA, 0xBB, 0x00, 0x99)
			id0b := append(append([]byte{}, hdr12...), 0xBE, 0xDE, 0, 5, 0x0F)
			id0b = append(append(id0b, bytes.Repeat([]byte{0x5A}, 16)...), 0, 0, 0, 0x77)
			id0c := append(append([]byte{}, hdr12...), 0xBE, 0xDE, 0, 2, 0x00, 0x01, 0xAA, 0xBB, 0x30, 0xCC, 0x00, 0x00)
			for _, b := range [][]byte{id0a, id0b, id0c} {
				emit(101, TList{TB(b)})
				emit(102, TList{TB(b)})
			}
			for i := 0; i < n; i++ {
				c := r.Fork(uint64(i))
				k := 1 + c.Intn(3)
				bufs := TList{}
				if i%5 == 4 {
					// a run of 3-6 mostly valid packets into one receiver: CSRC counts and extension
					// presence go up and down from packet to packet
					k = 3 + c.Intn(4)
					for j := 0; j < k; j++ {
						if c.Intn(8) == 0 {
							bufs = append(bufs, TB(hostileBuf(c)))
						} else {
							bufs = append(bufs, TB(wfWire(c)))
						}
					}
					k = 0
				}
				for j := 0; j < k; j++ {
					bufs = append(bufs, TB(hostileBuf(c)))
				}
				emit(c.Pick(101, 101, 102), bufs)
			}
		},
		Run: func(op int, toks []Tok) Outcome {
			var bufs [][]byte
			for _, t := range tokList(toks[0]) {
				bufs = append(bufs, tokBytes(t))
			}
			return runUnmarshalSeq(op == 101, bufs)
		},
	})
}
