package main

import (
	"encoding/hex"
	"math/big"
	"strconv"
	"strings"
)

// Val is the observable tree shared with the Coq model (Extract/Value.v).
// Text form: integers in decimal, x<hex> byte strings, [a b c] lists, #n(v) tags.
type Val interface{ write(sb *strings.Builder) }

type VInt struct{ V *big.Int }
type VBytes []byte
type VList []Val
type VTag struct {
	N int
	V Val
}

func I(n int64) Val   { return VInt{big.NewInt(n)} }
func U(n uint64) Val  { return VInt{new(big.Int).SetUint64(n)} }
func B(b []byte) Val  { return VBytes(b) }
func L(v ...Val) Val  { return VList(v) }
func T(n int, v Val) Val { return VTag{n, v} }
func Bool(b bool) Val {
	if b {
		return I(1)
	}
	return I(0)
}

var Unit = VList{}

func OkV(v Val) Val       { return VTag{0, v} }
func ErrV(code int) Val   { return VTag{1, I(int64(code))} }
func PanicV() Val         { return VTag{2, Unit} }

func (v VInt) write(sb *strings.Builder)   { sb.WriteString(v.V.String()) }
func (v VBytes) write(sb *strings.Builder) { sb.WriteByte('x'); sb.WriteString(hex.EncodeToString(v)) }
func (v VList) write(sb *strings.Builder) {
	sb.WriteByte('[')
	for i, x := range v {
		if i > 0 {
			sb.WriteByte(' ')
		}
		x.write(sb)
	}
	sb.WriteByte(']')
}
func (v VTag) write(sb *strings.Builder) {
	sb.WriteByte('#')
	sb.WriteString(strconv.Itoa(v.N))
	sb.WriteByte('(')
	v.V.write(sb)
	sb.WriteByte(')')
}

func Render(v Val) string {
	var sb strings.Builder
	v.write(&sb)
	return sb.String()
}

// Tok is an input token of a case line.
type Tok interface{ writeTok(sb *strings.Builder) }

type TInt struct{ V *big.Int }
type TBytes []byte
type TNil struct{}
type TList []Tok

func TI(n int64) Tok { return TInt{big.NewInt(n)} }
func TB(b []byte) Tok {
	if b == nil {
		return TNil{}
	}
	return TBytes(b)
}

func (t TInt) writeTok(sb *strings.Builder)   { sb.WriteString(t.V.String()) }
func (t TBytes) writeTok(sb *strings.Builder) { sb.WriteByte('x'); sb.WriteString(hex.EncodeToString(t)) }
func (t TNil) writeTok(sb *strings.Builder)   { sb.WriteByte('-') }
func (t TList) writeTok(sb *strings.Builder) {
	sb.WriteString("[")
	for _, x := range t {
		sb.WriteByte(' ')
		x.writeTok(sb)
	}
	sb.WriteString(" ]")
}

// CaseLine renders "<op> tok tok ...".
func CaseLine(op int, toks ...Tok) string {
	var sb strings.Builder
	sb.WriteString(strconv.Itoa(op))
	for _, t := range toks {
		sb.WriteByte(' ')
		t.writeTok(&sb)
	}
	return sb.String()
}
