package main

import (
	"bytes"
	"fmt"

	"github.com/pion/rtp"
)

// C05: header extension accessors behave as an ordered map that survives the wire.
// opcode 501: start-header-desc [ops]; ops: [1 id xv] set | [2 id] del | [3 id] get | [4] ids.
// The start header is built without SetExtension (flag and profile preset, no elements).

type kvp struct {
	id uint8
	v  []byte
}

func validFor(profile uint16, id uint8, v []byte) bool {
	switch {
	case profile == 0xBEDE:
		return id >= 1 && id <= 14 && len(v) >= 1 && len(v) <= 16
	case isTwoByte(profile):
		return id >= 1 && len(v) <= 255
	default:
		// one id-0 value; the extension length field counts it in 32-bit words and is 16 bits wide
		return id == 0 && len(v) <= 4*65535
	}
}

func optErrV(err error) Val {
	if err == nil {
		return T(0, Unit)
	}
	return errV(err)
}

func optBytesV(b []byte, present bool) Val {
	if !present {
		return T(1, Unit)
	}
	if b == nil {
		b = []byte{}
	}
	return T(0, B(b))
}

func runExtOps(d hdrDesc, ops []Tok) Outcome {
	h := rtp.Header{Version: uint8(d.version), Padding: d.padding, Marker: d.mk, PayloadType: uint8(d.pt),
		SequenceNumber: d.seq, Timestamp: d.ts, SSRC: d.ssrc, Extension: d.ext, ExtensionProfile: d.profile}
	h.CSRC = append([]uint32{}, d.csrc...)
	return runExtOpsOn(h, nil, false, ops)
}

// op 502: xwire [ops] - the start header is what Header.Unmarshal makes of the wire ("obtained from
// Unmarshal"); the reference map starts with the first element of every id, in order (GetExtension reads
// the first).  A wire may name an id twice: then GetExtensionIDs lists it twice until it is deleted.
func runExtOpsWire(wire []byte, ops []Tok) Outcome {
	var h rtp.Header
	if _, err := h.Unmarshal(append([]byte{}, wire...)); err != nil {
		return Outcome{Impl: errV(err), Fail: "the start wire was rejected: " + err.Error()}
	}
	var m []kvp
	dups := false
	if h.Extension {
		seen := map[uint8]bool{}
		for _, id := range h.GetExtensionIDs() {
			if seen[id] {
				dups = true
				continue
			}
			seen[id] = true
			m = append(m, kvp{id, append([]byte{}, h.GetExtension(id)...)})
		}
	}
	var sizes []elemSize
	for _, e := range wireAllElements(wire) {
		sizes = append(sizes, e)
	}
	o := runExtOpsOn(h, m, dups, ops, sizes...)
	if dups {
		o.Tags = append(o.Tags, "start header from a wire with a repeated id")
	} else {
		o.Tags = append(o.Tags, "start header from a wire")
	}
	return o
}

// wireAllElements lists (id, value length) of every element of the wire's extension block in order,
// walked from the RFC 8285 layout (see wireElements in c02.go)
func wireAllElements(buf []byte) []elemSize {
	var out []elemSize
	if len(buf) < 12 || buf[0]&0x10 == 0 {
		return nil
	}
	pos := 12 + 4*int(buf[0]&0x0F)
	if len(buf) < pos+4 {
		return nil
	}
	profile := int(buf[pos])<<8 | int(buf[pos+1])
	start := pos + 4
	end := start + 4*(int(buf[pos+2])<<8|int(buf[pos+3]))
	if end > len(buf) {
		end = len(buf)
	}
	switch {
	case profile == 0xBEDE:
		for q := start; q < end; {
			b := buf[q]
			if b == 0 {
				q++
				continue
			}
			if b>>4 == 15 {
				break
			}
			out = append(out, elemSize{b >> 4, int(b&15) + 1})
			q += 2 + int(b&15)
		}
	case profile&0xFFF0 == 0x1000:
		for q := start; q+1 < end; {
			if buf[q] == 0 {
				q++
				continue
			}
			out = append(out, elemSize{buf[q], int(buf[q+1])})
			q += 2 + int(buf[q+1])
		}
	default:
		out = append(out, elemSize{0, end - start})
	}
	return out
}

func dedupIDs(ids []uint8) []uint8 {
	var out []uint8
	seen := map[uint8]bool{}
	for _, id := range ids {
		if !seen[id] {
			seen[id] = true
			out = append(out, id)
		}
	}
	return out
}

// elemSize: id and value length of every element the header holds, repeated ids included - what decides
// whether one more value still fits the 65535 words the extension length field can count
type elemSize struct {
	id uint8
	n  int
}

func runExtOpsOn(h rtp.Header, m []kvp, dups bool, ops []Tok, sizes ...elemSize) Outcome {
	var o Outcome
	// overflows: would the elements, with this value set, exceed 65535 words?  (RFC 8285 forms; a legacy
	// value is bounded by validFor)
	overflows := func(profile uint16, id uint8, n int) bool {
		k := 0
		switch {
		case profile == 0xBEDE:
			k = 1
		case isTwoByte(profile):
			k = 2
		default:
			return false
		}
		total, replaced := 0, false
		for _, e := range sizes {
			if e.id == id && !replaced {
				replaced = true
				continue
			}
			total += k + e.n
		}
		return total+k+n > 4*65535
	}
	setSize := func(id uint8, n int) {
		for i := range sizes {
			if sizes[i].id == id {
				sizes[i].n = n
				return
			}
		}
		sizes = append(sizes, elemSize{id, n})
	}
	delSize := func(id uint8) {
		kept := sizes[:0:0]
		for _, e := range sizes {
			if e.id != id {
				kept = append(kept, e)
			}
		}
		sizes = kept
	}
	d := struct {
		ext     bool
		profile uint16
	}{h.Extension, h.ExtensionProfile}
	// m: the ordered map the accessors are supposed to implement (holds its own copies)
	// equal values are passed as the SAME slice object, as a caller that sets one buffer under several
	// ids would; the library may keep the slice but must never write through it
	interned := map[string][]byte{}
	enabled, profile := d.ext, d.profile
	outs := VList{}
	fail := func(format string, a ...interface{}) {
		if o.Fail == "" {
			o.Fail = fmt.Sprintf(format, a...)
		}
	}
	find := func(id uint8) int {
		for i := range m {
			if m[i].id == id {
				return i
			}
		}
		return -1
	}
	pn, what := catch(func() {
		for step, op := range ops {
			l := tokList(op)
			switch tokInt(l[0]) {
			case 1:
				id, v := uint8(tokInt(l[1])), tokBytes(l[2])
				if prev, ok := interned[string(v)]; ok {
					v = prev
				} else {
					interned[string(v)] = v
				}
				before := h.Clone()
				err := h.SetExtension(id, v)
				outs = append(outs, optErrV(err))
				// oracle
				var want bool
				if enabled {
					want = validFor(profile, id, v)
				} else {
					switch {
					case len(v) >= 1 && len(v) <= 16 && id >= 1 && id <= 14:
						want, profile = true, 0xBEDE
					case len(v) < 256 && id >= 1:
						want, profile = true, 0x1000
					}
					if want {
						enabled = true
					}
				}
				if want && enabled && overflows(profile, id, len(v)) {
					// a value that does not fit the block any more: refusing it is right; accepting it is only
					// right if the value then survives the wire (judged below)
					o.Tags = append(o.Tags, "set beyond 65535 words")
				} else if (err == nil) != want {
					fail("step %d: SetExtension(%d, %d bytes) returned %v, the profile rules say accepted=%v", step, id, len(v), err, want)
				}
				if err == nil {
					setSize(id, len(v))
					if i := find(id); i >= 0 {
						m[i].v = append([]byte{}, v...)
					} else {
						m = append(m, kvp{id, append([]byte{}, v...)})
					}
					// last value per id, for EVERY id: a Set must not disturb the value of another id
					for _, e := range m {
						if got := h.GetExtension(e.id); !bytes.Equal(got, e.v) {
							fail("step %d: after SetExtension(%d, %d bytes) GetExtension(%d) returns %x, the last value set was %x", step, id, len(v), e.id, got, e.v)
						}
					}
				} else if !hdrEquivalent(&before, &h) || before.Extension != h.Extension {
					fail("step %d: a failed SetExtension changed the header", step)
				}
				o.Tags = append(o.Tags, fmt.Sprintf("set accepted=%v", err == nil))
			case 2:
				id := uint8(tokInt(l[1]))
				err := h.DelExtension(id)
				outs = append(outs, optErrV(err))
				i := find(id)
				if (err == nil) != (enabled && i >= 0) {
					fail("step %d: DelExtension(%d) returned %v", step, id, err)
				}
				if err == nil && i >= 0 {
					m = append(m[:i:i], m[i+1:]...)
				}
				if err == nil {
					delSize(id)
				}
				if err == nil {
					// "deleted ids absent"
					if v := h.GetExtension(id); v != nil {
						fail("step %d: DelExtension(%d) returned nil, GetExtension(%d) still returns %x", step, id, id, v)
					}
					for _, x := range h.GetExtensionIDs() {
						if x == id {
							fail("step %d: DelExtension(%d) returned nil, GetExtensionIDs still lists it", step, id)
						}
					}
				}
				o.Tags = append(o.Tags, fmt.Sprintf("del found=%v", err == nil))
			case 3:
				id := uint8(tokInt(l[1]))
				v := h.GetExtension(id)
				i := find(id)
				present := enabled && i >= 0
				outs = append(outs, optBytesV(v, present))
				if present && !bytes.Equal(v, m[i].v) {
					fail("step %d: GetExtension(%d) returned a different value", step, id)
				}
				if !present && v != nil {
					fail("step %d: GetExtension(%d) returned a value for an absent id", step, id)
				}
			case 4:
				ids := h.GetExtensionIDs()
				if ids == nil {
					outs = append(outs, T(1, Unit))
				} else {
					vs := VList{}
					for _, x := range ids {
						vs = append(vs, I(int64(x)))
					}
					outs = append(outs, T(0, vs))
				}
				if dups {
					ids = dedupIDs(ids) // an id the wire named twice is listed twice until it is deleted
				}
				if len(ids) != len(m) && !(len(m) == 0 && ids == nil) {
					fail("step %d: GetExtensionIDs has %d ids, expected %d", step, len(ids), len(m))
				} else {
					for i := range ids {
						if ids[i] != m[i].id {
							fail("step %d: GetExtensionIDs order differs from first-insertion order", step)
						}
					}
				}
			}
		}
	})
	if pn {
		o.Impl, o.Fail = PanicV(), "accessor panicked: "+what
		return o
	}
	for k, sl := range interned {
		if string(sl) != k {
			fail("the library wrote into a slice the caller passed to SetExtension: %x became %x", k, sl)
		}
	}
	o.Nontrivial = len(m) > 0
	final := vHeader(&h)
	var bs []byte
	var merr error
	if pn, what := catch(func() { bs, merr = h.Marshal() }); pn {
		o.Impl = L(outs, final, PanicV(), Unit)
		o.Fail = "Marshal panicked after the accessor calls: " + what
		return o
	}
	if merr != nil {
		o.Impl = L(outs, final, errV(merr), Unit)
		legacyOdd := enabled && profile != 0xBEDE && !isTwoByte(profile) && len(m) > 0 && len(m[0].v)%4 != 0
		if !legacyOdd {
			fail("Marshal refused a header built from accepted calls: %v", merr)
		}
		o.Tags = append(o.Tags, "marshal refused")
		return o
	}
	var q rtp.Header
	if _, err := q.Unmarshal(bs); err != nil {
		o.Impl = L(outs, final, OkV(B(bs)), errV(err))
		fail("Unmarshal of the marshalled header failed: %v", err)
		return o
	}
	o.Impl = L(outs, final, OkV(B(bs)), OkV(vHeader(&q)))
	for _, e := range m {
		if !bytes.Equal(q.GetExtension(e.id), e.v) || (len(e.v) > 0 && q.GetExtension(e.id) == nil) {
			fail("value of id %d did not survive Marshal/Unmarshal", e.id)
		}
	}
	return o
}

// extStartWire is a header as it comes off the wire: no extension, a one-byte, two-byte or legacy block
// with 0-4 elements and zero padding between them; in a fifth of the RFC 8285 blocks an id occurs twice
func extStartWire(c *RNG) []byte {
	w := []byte{0x80, byte(c.Intn(128)), byte(c.Intn(256)), byte(c.Intn(256)), 1, 2, 3, 4, 5, 6, 7, 8}
	kind := c.Intn(4)
	if kind == 0 {
		return w
	}
	w[0] |= 0x10
	var body []byte
	profile := uint16(0xBEDE)
	idsPool := []int{1, 2, 5, 14}
	n := c.Intn(5)
	var ids []int
	for i := 0; i < n; i++ {
		ids = append(ids, idsPool[c.Intn(len(idsPool))])
	}
	if c.Intn(5) != 0 { // distinct ids
		seen := map[int]bool{}
		var d []int
		for _, id := range ids {
			if !seen[id] {
				seen[id] = true
				d = append(d, id)
			}
		}
		ids = d
	}
	switch kind {
	case 1:
		for _, id := range ids {
			v := c.Bytes(1 + c.Intn(16))
			body = append(body, byte(id<<4|(len(v)-1)))
			body = append(body, v...)
			if c.Intn(3) == 0 {
				body = append(body, 0)
			}
		}
	case 2:
		profile = twoByteProfile(c)
		for _, id := range ids {
			if c.Intn(3) == 0 {
				id = 15 + c.Intn(241)
			}
			v := c.Bytes(c.Pick(0, 1, 3, 17, c.Intn(40)))
			body = append(body, byte(id), byte(len(v)))
			body = append(body, v...)
			if c.Intn(3) == 0 {
				body = append(body, 0)
			}
		}
	default:
		profile = legacyProfile(c)
		body = c.Bytes(4 * c.Intn(4))
	}
	for len(body)%4 != 0 {
		body = append(body, 0)
	}
	w = append(w, byte(profile>>8), byte(profile), byte(len(body)/4>>8), byte(len(body)/4))
	w = append(w, body...)
	return append(w, c.Bytes(c.Intn(4))...)
}

func init() {
	register(&Prop{
		ID:       "C05",
		Rule:     "operation sequences of length 1-12 (Set 55%, Del 20%, Get 15%, GetIDs 10%) over the four starting states (no extension, one-byte, two-byte, legacy), ids from {0,1,2,14,15,16,255} and random, value lengths from {0,1,3,4,16,17,255,256,300} and random; each sequence ends with Marshal, Unmarshal and a read-back of every id; non-trivial = the map is non-empty at the end",
		Quick:    6000,
		Thorough: 300000,
		Gen: func(r *RNG, tier string, n int, emit func(op int, toks ...Tok)) {
			starts := []hdrDesc{
				{version: 2},
				{version: 2, ext: true, profile: 0xBEDE},
				{version: 2, ext: true, profile: 0x1000},
				{version: 2, ext: true, profile: 0x1234},
			}
			set := func(id int, n int) Tok { return TList{TI(1), TI(int64(id)), TBytes(make([]byte, n))} }
			// the sequences named in the property
			emit(501, starts[3].tok(), TList{set(0, 4), TList{TI(2), TI(0)}})
			emit(501, starts[0].tok(), TList{set(0, 1)})
			emit(501, starts[0].tok(), TList{set(15, 1)})
			emit(501, starts[0].tok(), TList{set(1, 300)})
			emit(501, starts[1].tok(), TList{set(1, 0)})
			emit(501, starts[1].tok(), TList{set(1, 3), set(1, 5), TList{TI(3), TI(1)}})
			{
				// every two-byte id with a 255-byte value (65535 bytes of elements), then the wire;
				// and a legacy value of 16384 words
				ops := TList{}
				for id := 1; id <= 255; id++ {
					ops = append(ops, TList{TI(1), TI(int64(id)), TBytes(bytes.Repeat([]byte{byte(id)}, 255))})
				}
				ops = append(ops, TList{TI(4)}, TList{TI(3), TI(255)})
				emit(501, starts[2].tok(), ops)
				emit(501, starts[3].tok(), TList{TList{TI(1), TI(0), TBytes(make([]byte, 65536))}, TList{TI(3), TI(0)}})
				// the largest legacy value the 16-bit word count can describe (65535 words), and the first ones it cannot
				for _, n := range []int{4 * 65535, 4*65535 + 4, 4 * 65537, 4*65535 + 1} {
					v := bytes.Repeat([]byte{0xAB}, n)
					emit(501, starts[3].tok(), TList{TList{TI(1), TI(0), TBytes(v)}, TList{TI(3), TI(0)}, TList{TI(4)}})
				}
			}
			{
				// headers off the wire whose block is full to (or a few bytes short of) the 65535 words the length
				// field can count - possible only with an id named again and again - and then one more value,
				// a longer value for an id that is there, and a same-size replacement
				c := r.Fork(5021)
				fixed := []byte{0x90, 96, 0, 1, 0, 0, 0, 2, 0, 0, 0, 3}
				two := append(append([]byte{}, fixed...), 0x10, 0x00, 0xFF, 0xFF)
				for k := 0; k < 1020; k++ {
					two = append(append(two, 1, 255), c.Bytes(255)...)
				}
				one := append(append([]byte{}, fixed...), 0xBE, 0xDE, 0xFF, 0xFF)
				for k := 0; k < 15420; k++ {
					one = append(append(one, 0x1F), c.Bytes(16)...)
				}
				almost := append(append([]byte{}, fixed...), 0x10, 0x00, 0xFF, 0xFF)
				for k := 0; k < 1019; k++ {
					almost = append(append(almost, 1, 255), c.Bytes(255)...)
				}
				almost = append(append(almost, 7, 250), c.Bytes(250)...)
				almost = append(almost, 0, 0, 0, 0, 0)
				ws := [][]byte{two, almost}
				if tier == "thorough" {
					// 15420 one-byte elements: the list-based model needs minutes for each of these cases
					ws = append(ws, one)
				}
				for _, w := range ws {
					emit(502, TBytes(w), TList{set(2, 3), TList{TI(3), TI(2)}, TList{TI(3), TI(1)}})
					emit(502, TBytes(w), TList{set(1, 16), TList{TI(3), TI(1)}, set(1, 1), set(3, 2), TList{TI(3), TI(3)}})
				}
				emit(502, TBytes(almost), TList{set(7, 255), TList{TI(3), TI(7)}, set(7, 253), TList{TI(2), TI(1)}, set(9, 255), TList{TI(4)}})
			}
			idsPool := []int{0, 1, 2, 14, 15, 16, 255}
			lens := []int{0, 1, 3, 4, 16, 17, 255, 256, 300}
			for i := 0; i < n; i++ {
				c := r.Fork(uint64(i))
				d := starts[c.Intn(4)]
				if d.profile == 0x1234 {
					d.profile = legacyProfile(c)
				}
				if d.profile == 0x1000 {
					d.profile = twoByteProfile(c)
				}
				d.seq, d.ts, d.pt, d.mk = uint16(c.U64()), uint32(c.U64()), c.Intn(128), c.Bool()
				k := 1 + c.Intn(12)
				ops := TList{}
				var used [][]byte
				for j := 0; j < k; j++ {
					id := idsPool[c.Intn(len(idsPool))]
					if c.Intn(4) == 0 {
						id = c.Intn(256)
					}
					switch x := c.Intn(100); {
					case x < 55:
						l := lens[c.Intn(len(lens))]
						if c.Intn(3) == 0 {
							l = c.Intn(20)
						}
						v := c.Bytes(l)
						if len(used) > 0 {
							switch c.Intn(4) {
							case 0: // the same buffer under another id, or set again
								v = used[c.Intn(len(used))]
							case 1: // a replacement of the same length
								v = c.Bytes(len(used[c.Intn(len(used))]))
							}
						}
						used = append(used, v)
						ops = append(ops, TList{TI(1), TI(int64(id)), TBytes(v)})
					case x < 75:
						ops = append(ops, TList{TI(2), TI(int64(id))})
					case x < 90:
						ops = append(ops, TList{TI(3), TI(int64(id))})
					default:
						ops = append(ops, TList{TI(4)})
					}
				}
				if c.Intn(4) == 0 {
					emit(502, TBytes(extStartWire(c)), ops)
				} else {
					emit(501, d.tok(), ops)
				}
			}
		},
		Run: func(op int, toks []Tok) Outcome {
			if op == 502 {
				return runExtOpsWire(tokBytes(toks[0]), tokList(toks[1]))
			}
			return runExtOps(hdrDescFromTok(toks[0]), tokList(toks[1]))
		},
	})
}
