package main

import (
	"strings"
	"bytes"
	"fmt"

	"github.com/pion/rtp/codecs"
)

// C08 (payloaders: MTU bound, no panic, input untouched, owned copies), C09 (depacketizers:
// panic-free, reuse-safe, owned state) and C15 (resynchronisation) reuse the per-codec opcodes and
// runners; they differ in what their generators stress.

func routeByOp(op int, toks []Tok) Outcome {
	var id string
	switch {
	case op >= 1600 && op < 1700:
		id = "C16"
	case op >= 1100 && op < 1200:
		id = "C11"
	case op >= 1200 && op < 1300:
		id = "C12"
	case op >= 1000 && op < 1100:
		id = "C10"
	case op >= 1400 && op < 1500:
		id = "C14"
	case op >= 1300 && op < 1400:
		id = "C13"
	default:
		panic("no runner for opcode")
	}
	o := registry[id].Run(op, toks)
	if currentProp == "C09" && o.Fail == "" {
		o.Fail = zeroAllocationProbe(toks)
	}
	if o.Fail != "" && !ownClause(currentProp, o.Fail) {
		// the runner of another property judged a clause of ITS property (a partition index, an aggregation rule, a
		// fragment size ...): under this property only its own clauses count; the correspondence still sees the case
		o.Tags = append(o.Tags, "a clause of another property failed: not judged here")
		o.Fail = ""
	}
	return o
}

// zeroAllocationProbe: the same payloads once more through every depacketizer that has the zero-allocation switch,
// with the switch on (a reduced mode the model does not describe: H264Packet hands the payload back untouched) -
// C09's first clause, "return without panicking, however the calls are interleaved", holds there too
func zeroAllocationProbe(toks []Tok) string {
	var ps [][]byte
	for _, t := range toks {
		if l, ok := t.(TList); ok {
			for _, x := range l {
				switch x.(type) {
				case TBytes, TNil:
					ps = append(ps, tokBytes(x))
				}
			}
		}
	}
	if len(ps) == 0 {
		return ""
	}
	type dep interface {
		Unmarshal([]byte) ([]byte, error)
		IsPartitionHead([]byte) bool
		IsPartitionTail(bool, []byte) bool
		SetZeroAllocation(bool)
	}
	h5 := &codecs.H265Packet{}
	for name, d := range map[string]dep{"H264Packet": &codecs.H264Packet{}, "H264Packet (AVC)": &codecs.H264Packet{IsAVC: true},
		"H265Packet": h5, "VP8Packet": &codecs.VP8Packet{}, "VP9Packet": &codecs.VP9Packet{}, "AV1Depacketizer": &codecs.AV1Depacketizer{}} {
		d.SetZeroAllocation(true)
		for i, p := range ps {
			in := append([]byte(nil), p...)
			if p == nil {
				in = nil
			}
			if pn, what := catch(func() {
				_ = d.IsPartitionHead(in)
				_, _ = d.Unmarshal(in)
				_ = d.IsPartitionTail(i%2 == 0, in)
			}); pn {
				return fmt.Sprintf("%s in zero-allocation mode: panic on payload %d (%x): %s", name, i, p, what)
			}
		}
	}
	return ""
}

// ownClause: is the failure one of the clauses the property under check states?  C08: no panic, at most MTU
// bytes, non-empty, input unmodified, owned copies.  C09: no panic, input unmodified, reused = fresh, own state.
// C15: the intact frame decodes as on a fresh receiver.
func ownClause(prop, msg string) bool {
	has := func(words ...string) bool {
		for _, w := range words {
			if strings.Contains(msg, w) {
				return true
			}
		}
		return false
	}
	switch prop {
	case "C08":
		return has("panic", "MTU", "empty", "input modified", "the input was modified", "aliases", "changed fragment", "fed back in", "not exactly one fragment")
	case "C09":
		return has("panic", "input modified", "reused receiver", "fresh", "Payload field", "nil/empty", "not returned unchanged", "head/tail")
	case "C15":
		return has("panic", "input modified", "after the lossy history")
	}
	return true
}

// runResync: payloads[:nh] is an arbitrary history, payloads[nh:] a completely delivered frame.  The
// frame's outputs on the receiver that saw the history must equal those of a fresh receiver (C15).
func runResync(o Outcome, nh int, payloads [][]byte, fresh func() func([]byte) ([]byte, error)) Outcome {
	if currentProp == "C15" && o.Fail != "" && !ownClause("C15", o.Fail) {
		o.Fail = "" // what the history itself decoded to is not C15's business
	}
	if o.Fail != "" || nh > len(payloads) {
		return o
	}
	d1, d2 := fresh(), fresh()
	for _, x := range payloads[:nh] {
		_, _ = catch(func() { _, _ = d1(append([]byte{}, x...)) })
	}
	for k, x := range payloads[nh:] {
		o1, e1 := d1(append([]byte{}, x...))
		o2, e2 := d2(append([]byte{}, x...))
		if (e1 == nil) != (e2 == nil) || !bytes.Equal(o1, o2) {
			o.Fail = fmt.Sprintf("packet %d of the intact frame decodes differently after the lossy history: %x (err %v), a fresh receiver gives %x (err %v)", k, o1, e1, o2, e2)
			break
		}
	}
	return o
}

// inputs seeded with the structures the payloaders look for
func structuredInput(c *RNG) []byte {
	n := c.Intn(60)
	b := c.Bytes(n)
	for k := 0; k < 3 && n > 4; k++ {
		i := c.Intn(n - 3)
		switch c.Intn(5) {
		case 0:
			copy(b[i:], []byte{0, 0, 1})
		case 1:
			copy(b[i:], []byte{0, 0, 0, 1})
		case 2:
			b[i] = byte(c.Pick(0x0A, 0x12, 0x32, 0x36, 0x30, 0x22)) // OBU headers
		case 3:
			copy(b[i:], []byte{0x82, 0x49, 0x83, 0x42}) // VP9 key frame start
		case 4:
			b[i] = byte(c.Pick(0x67, 0x68, 0x65, 0x09, 0x0C, 0x40, 0x42, 0x26))
		}
	}
	if c.Intn(20) == 0 {
		return nil
	}
	return b
}

func init() {
	register(&Prop{
		ID:       "C08",
		Rule:     "every payloader and option setting x MTU 0-65535 (half of the mass on 0-12) x inputs seeded with start codes, OBU headers, VP9 frame headers and NAL type bytes, nil and empty; AV1 cases with the free packet space at the LEB128 boundaries 128 and 16384; histories of 1-6 calls on one instance with the caller overwriting each input after the call; observables include per fragment whether it is disjoint from every caller buffer; non-trivial = a call that returned >= 2 fragments",
		Quick:    6000,
		Thorough: 300000,
		Gen: func(r *RNG, tier string, n int, emit func(op int, toks ...Tok)) {
			// AV1: free packet space at the LEB128 size boundaries (the MTU bound is tightest there)
			emitAv1LebEdges(r.Fork(808080), []int{128, 16384}, emit)
			emitH264Extremes(r.Fork(808082), emit)
			// the stateless audio payloaders, one instance over several calls: what an earlier call returned stays
			// what it was (owned copies), a fragment fed back in is an input like any other
			for k := 0; k < 60; k++ {
				c := r.Fork(uint64(808100 + k))
				calls := TList{}
				for j, jn := 0, 2+c.Intn(4); j < jn; j++ {
					calls = append(calls, TList{TI(int64(c.Pick(1, 2, 3, 7, 1+c.Intn(50), 1200))), TB(c.Bytes(c.Pick(1, 2, 3, 1+c.Intn(40), 1+c.Intn(300))))})
				}
				emit(1606, TI(int64(k%3)), calls)
			}
			// every one-byte input, and 256 two-byte inputs over the bit patterns the header parsers
			// branch on, through every payloader and option setting (64 calls per instance): the first
			// byte alone decides how far a parser reads
			{
				alpha := []byte{0x00, 0x01, 0x12, 0x32, 0x40, 0x62, 0x67, 0x7C, 0x80, 0x82, 0x91, 0xA0, 0xB0, 0xB8, 0xC6, 0xFF}
				var inputs [][]byte
				for b := 0; b < 256; b++ {
					inputs = append(inputs, []byte{byte(b)})
				}
				for _, a := range alpha {
					for _, b := range alpha {
						inputs = append(inputs, []byte{a, b})
					}
				}
				for lo := 0; lo < len(inputs); lo += 64 {
					calls := TList{}
					for _, in := range inputs[lo : lo+64] {
						calls = append(calls, TList{TI(int64(20)), TB(in)})
					}
					for opt := 0; opt < 2; opt++ {
						emit(1101, TI(int64(opt)), TI(0), calls)
						emit(1201, TI(int64(opt)), TI(0x7FFE), calls)
						emit(1001, TI(int64(opt)), calls)
						emit(1401, TI(int64(opt)), TI(0), calls)
						emit(1401, TI(int64(opt)), TI(1), calls)
					}
					for _, in := range inputs[lo : lo+64] {
						emit(1301, TI(20), TB(in))
					}
				}
			}
			for _, st := range av1HostileStreams() {
				emit(1301, TI(100), TB(st))
				emit(1301, TI(4), TB(st))
			}
			for i := 0; i < n; i++ {
				c := r.Fork(uint64(i))
				mtu := func() int64 {
					switch c.Intn(4) {
					case 0, 1:
						return int64(c.Intn(13))
					case 2:
						return int64(c.Intn(65536))
					}
					return int64(13 + c.Intn(80))
				}
				calls := TList{}
				for k, kn := 0, 1+c.Intn(6); k < kn; k++ {
					calls = append(calls, TList{TI(mtu()), TB(structuredInput(c))})
				}
				switch c.Intn(9) {
				case 0:
					emit(1601+c.Intn(3), TI(mtu()), TB(structuredInput(c)))
				case 1:
					emit(1101, TI(int64(c.Intn(2))), TI(0), calls)
				case 2:
					emit(1201, TI(int64(c.Intn(2))), TI(int64(c.Intn(65536))), calls)
				case 3, 4:
					emit(1001, TI(int64(c.Intn(2))), calls)
				case 5, 6:
					emit(1401, TI(int64(c.Intn(2))), TI(int64(c.Intn(2))), calls)
				default:
					emit(1301, TI(mtu()), TB(structuredInput(c)))
				}
			}
		},
		Run: routeByOp,
	})
	register(&Prop{
		ID:       "C09",
		Rule:     "every depacketizer (H264 Annex-B/AVC, H265 with/without DONL, VP8, VP9, AV1Depacketizer, AV1Packet+frame assembler, Opus) x sequences of 1-12 payloads on one receiver: random, nil, empty, structured headers, mutated payloader output, and every sixth case whole unmodified payloader / RFC 6184 encoder outputs of one or two frames; all byte strings of length <= 2 over a 12-symbol alphabet (quick) / <= 3 (thorough); the caller overwrites each payload after the call; reuse is compared with a fresh receiver inside the runners; non-trivial = an accepted payload",
		Quick:    6000,
		Thorough: 300000,
		Gen: func(r *RNG, tier string, n int, emit func(op int, toks ...Tok)) {
			alphabet := []byte{0x00, 0x01, 0x10, 0x1C, 0x18, 0x7C, 0x80, 0x90, 0x62, 0x64, 0xF0, 0xFF}
			maxLen := 2
			if tier == "thorough" {
				maxLen = 3
			}
			var rec func(cur []byte)
			emitAll := func(b []byte) {
				ps := TList{TB(append([]byte{}, b...))}
				emit(1002, TI(0), ps)
				emit(1002, TI(1), ps)
				emit(1102, ps)
				emit(1202, ps)
				emit(1302, ps)
				emit(1303, ps)
				emit(1402, TI(0), ps)
				emit(1402, TI(1), ps)
				emit(1604, TB(append([]byte{}, b...)))
			}
			for _, pl := range av1HostilePayloads() {
				emit(1302, TList{TB(pl)})
				emit(1303, TList{TB(pl)})
			}
			rec = func(cur []byte) {
				emitAll(cur)
				if len(cur) == maxLen {
					return
				}
				for _, a := range alphabet {
					rec(append(append([]byte{}, cur...), a))
				}
			}
			rec(nil)
			for i := 0; i < n; i++ {
				c := r.Fork(uint64(i))
				if i%6 == 5 {
					// whole payloader outputs (one or two frames back to back, unmodified) into one
					// receiver: fragments continued across packets next to complete elements - the
					// retained state is exercised while the caller overwrites every delivered buffer
					ps := TList{}
					mtu := c.Pick(6, 8, 10, 12, 16, 5+c.Intn(20))
					switch c.Intn(5) {
					case 3:
						// well-formed RFC 7798 payloads of every form into one H265 receiver: what one packet
						// leaves behind (DONL, PHES, aggregation units) must not show in the next
						wd := c.Bool()
						for f, fn := 0, 2+c.Intn(5); f < fn; f++ {
							ps = append(ps, TBytes(rfc7798Encode(wd, genRfc7798Form(c.Fork(uint64(40+f))))))
						}
						emit(1402, TI(b2i(wd)), ps)
					case 4:
						// VP8 / VP9 descriptors of every shape, back to back
						if c.Bool() {
							for f, fn := 0, 2+c.Intn(5); f < fn; f++ {
								ps = append(ps, TBytes(genVp9Descriptor(c)))
							}
							emit(1202, ps)
						} else {
							for f, fn := 0, 2+c.Intn(5); f < fn; f++ {
								ps = append(ps, TBytes(append(genVp8Desc(c).encode(), c.Bytes(1+c.Intn(4))...)))
							}
							emit(1102, ps)
						}
					case 0:
						for f := 0; f < 1+c.Intn(2); f++ {
							for _, pk := range (&codecs.AV1Payloader{}).Payload(uint16(mtu), encodeOBUs(genOBUs(c, mtu))) {
								ps = append(ps, TBytes(pk))
							}
						}
						if len(ps) > 0 {
							emit(1302, ps)
							emit(1303, ps)
						}
					case 1:
						p := &codecs.H264Payloader{}
						for f := 0; f < 1+c.Intn(2); f++ {
							for _, pk := range p.Payload(uint16(mtu), annexB(c, genAccessUnit(c, mtu))) {
								ps = append(ps, TBytes(pk))
							}
						}
						if len(ps) > 0 {
							emit(1002, TI(int64(c.Intn(2))), ps)
						}
					default:
						pl, _ := rfc6184Encode(genRfc6184Plan(c.Fork(3)))
						for _, pk := range pl {
							ps = append(ps, TBytes(pk))
						}
						emit(1002, TI(int64(c.Intn(2))), ps)
					}
					continue
				}
				ps := TList{}
				for k, kn := 0, 1+c.Intn(12); k < kn; k++ {
					var b []byte
					switch c.Intn(6) {
					case 0:
						b = nil
					case 1:
						b = []byte{}
					case 2:
						b = c.Bytes(c.Intn(16))
					case 3:
						b = append([]byte{alphabet[c.Intn(len(alphabet))], alphabet[c.Intn(len(alphabet))]}, c.Bytes(c.Intn(12))...)
					default:
						var pk [][]byte
						in := structuredInput(c)
						switch c.Intn(5) {
						case 0:
							pk = (&codecs.H264Payloader{}).Payload(uint16(5+c.Intn(20)), in)
						case 1:
							pk = (&codecs.H265Payloader{}).Payload(uint16(5+c.Intn(20)), in)
						case 2:
							pk = (&codecs.VP8Payloader{EnablePictureID: true}).Payload(uint16(5+c.Intn(20)), in)
						case 3:
							pk = (&codecs.VP9Payloader{FlexibleMode: true}).Payload(uint16(5+c.Intn(20)), in)
						default:
							pk = (&codecs.AV1Payloader{}).Payload(uint16(5+c.Intn(20)), in)
						}
						if len(pk) > 0 {
							b = append([]byte{}, pk[c.Intn(len(pk))]...)
							if c.Bool() {
								b[c.Intn(len(b))] ^= 1 << uint(c.Intn(8))
							}
						}
					}
					ps = append(ps, TB(b))
				}
				switch c.Intn(7) {
				case 0:
					emit(1002, TI(int64(c.Intn(2))), ps)
				case 1:
					emit(1102, ps)
				case 2:
					emit(1202, ps)
				case 3:
					emit(1302, ps)
				case 4:
					emit(1303, ps)
				case 5:
					emit(1402, TI(int64(c.Intn(2))), ps)
				default:
					emit(1002, TI(int64(c.Intn(2))), ps)
				}
			}
		},
		Run: routeByOp,
	})
	register(&Prop{
		ID:       "C15",
		Rule:     "H264Packet and AV1Depacketizer: a frame A is payloaded (one time in five B is A again - a retransmission), every subset of A's packets is delivered (all 2^k subsets for k <= 10 packets in thorough, 64 sampled subsets in quick, plus random byte strings as history), then an intact frame B; the outputs for B's packets must equal what a fresh depacketizer produces for B; non-trivial = A has a fragmented unit and the delivered subset is a proper one",
		Quick:    1500,
		Thorough: 4000, // frames; thorough delivers every one of the up to 2^10 subsets of each (about 10^6 cases)
		Gen: func(r *RNG, tier string, n int, emit func(op int, toks ...Tok)) {
			for i := 0; i < n; i++ {
				c := r.Fork(uint64(i))
				mtu := c.Pick(5, 8, 12, 20, 5+c.Intn(30))
				isH264 := c.Bool()
				var a, b [][]byte
				if isH264 {
					p := &codecs.H264Payloader{DisableStapA: c.Bool()}
					a = p.Payload(uint16(mtu), annexB(c, genAccessUnit(c, mtu)))
					b = p.Payload(uint16(mtu), annexB(c, genAccessUnit(c, mtu)))
					// a third of the frames come from the independent RFC 6184 encoder instead: FU-A runs
					// cut anywhere, empty fragments (also as the start fragment) included
					if c.Intn(3) == 0 {
						a, _ = rfc6184Encode(genRfc6184Plan(c.Fork(1)))
					}
					if c.Intn(3) == 0 {
						b, _ = rfc6184Encode(genRfc6184Plan(c.Fork(2)))
					}
				} else {
					a = (&codecs.AV1Payloader{}).Payload(uint16(mtu), encodeOBUs(genOBUs(c, mtu)))
					b = (&codecs.AV1Payloader{}).Payload(uint16(mtu), encodeOBUs(genOBUs(c, mtu)))
				}
				if c.Intn(5) == 0 {
					// retransmission: frame B is frame A again (the lost part of A is whatever the mask drops)
					b = a
				}
				if len(b) == 0 {
					continue
				}
				if len(a) > 10 {
					a = a[:10]
				}
				subsets := 64
				if tier == "thorough" || 1<<uint(len(a)) < subsets {
					subsets = 1 << uint(len(a))
				}
				avc := c.Bool()
				for s := 0; s < subsets; s++ {
					mask := s
					if subsets < 1<<uint(len(a)) {
						mask = c.Intn(1 << uint(len(a)))
					}
					var hist [][]byte
					for k := range a {
						if mask>>uint(k)&1 == 1 {
							hist = append(hist, a[k])
						}
					}
					if c.Intn(8) == 0 {
						hist = append(hist, c.Bytes(c.Intn(10)))
					}
					if !isH264 && c.Intn(6) == 0 {
						// garbage with an element length beyond every buffer (and beyond an int)
						hp := av1HostilePayloads()
						hist = append(hist, hp[c.Intn(len(hp))])
					}
					ps := TList{}
					for _, x := range hist {
						ps = append(ps, TBytes(x))
					}
					for _, x := range b {
						ps = append(ps, TBytes(x))
					}
					// ops 1005 / 1307: the first len(hist) payloads are the lossy history, the rest is the
					// intact frame; the runner compares the frame's outputs with a fresh receiver's
					if isH264 {
						emit(1005, TI(b2i(avc)), TI(int64(len(hist))), ps)
					} else {
						emit(1307, TI(int64(len(hist))), ps)
					}
				}
			}
		},
		Run: routeByOp,
	})
}
