package main

import (
	"bytes"
	"fmt"

	"github.com/pion/rtp/codecs"
)

// H265 (C14 and the H265 instances of C08/C09).
// opcodes: 1401 addDONL skipAggregation [[mtu annexb]...]   one H265Payloader, a history of calls
//          1402 withDONL [payloads...]                       H265Packet.Unmarshal of each payload
//          1406 addDONL skip [[mtu [[sc xnal]...]]...]   the lossless clause: units in, payloader, RFC 7798 reassembly, units out
//          1405 withDONL form                                independent RFC 7798 encoder -> H265Packet, fields compared with the form
//          1403 h   payload-header accessors of the 16-bit value h
//          1404 b   FU-header accessors of the byte b

func genH265Nal(c *RNG, size int) []byte {
	if size < 3 {
		size = 3
	}
	b := genNalBody(c, size)
	typ := c.Intn(48)
	b[0] = byte(typ)<<1 | byte(c.Intn(2)) // F = 0, top bit of layer id
	b[1] = byte(c.Intn(32))<<3 | byte(c.Intn(8)) // TID 0 included (reserved for NAL types the library does not interpret)
	if c.Intn(3) == 0 { // small layer ids and TIDs, so that minima of different units cross
		b[0] &^= 1
		b[1] = byte(c.Intn(3))<<3 | byte(c.Intn(4))
	}
	if b[2] == 0 && b[1] == 0 {
		b[2] = 3
	}
	if b[0] == 0 && b[1] == 0 && b[2] == 1 {
		// the header bytes were drawn after the body: 00 00 01 at the head of a unit is a start code, not a unit
		// (seen once in the thorough tier: the splitter rightly cut there and the oracle's expectation did not)
		b[2] = 2
	}
	return b
}

func vNH(h codecs.H265NALUHeader) Val {
	return L(Bool(h.F()), I(int64(h.Type())), I(int64(h.LayerID())), I(int64(h.TID())))
}

func optU16(p *uint16) Val {
	if p == nil {
		return T(1, Unit)
	}
	return T(0, I(int64(*p)))
}

func optU8(p *uint8) Val {
	if p == nil {
		return T(1, Unit)
	}
	return T(0, I(int64(*p)))
}

func nn(b []byte) []byte {
	if b == nil {
		return []byte{}
	}
	return b
}

func vH265Packet(d *codecs.H265Packet) Val {
	switch v := d.Packet().(type) {
	case *codecs.H265SingleNALUnitPacket:
		return T(10, L(vNH(v.PayloadHeader()), optU16(v.DONL()), B(nn(v.Payload()))))
	case *codecs.H265AggregationPacket:
		os := VList{}
		for _, u := range v.OtherUnits() {
			os = append(os, L(optU8(u.DOND()), B(nn(u.NalUnit()))))
		}
		return T(11, L(optU16(v.FirstUnit().DONL()), B(nn(v.FirstUnit().NalUnit())), os))
	case *codecs.H265FragmentationUnitPacket:
		fh := v.FuHeader()
		return T(12, L(vNH(v.PayloadHeader()), Bool(fh.S()), Bool(fh.E()), I(int64(fh.FuType())), optU16(v.DONL()), B(nn(v.Payload()))))
	case *codecs.H265PACIPacket:
		var ts Val = T(1, Unit)
		if pn, _ := catch(func() {
			if t := v.TSCI(); t != nil {
				ts = T(0, L(I(int64(t.TL0PICIDX())), I(int64(t.IrapPicID())), Bool(t.S()), Bool(t.E()), I(int64(t.RES()))))
			}
		}); pn {
			ts = T(2, Unit)
		}
		return T(13, L(vNH(v.PayloadHeader()), Bool(v.A()), I(int64(v.CType())), I(int64(v.PHSsize())), Bool(v.F0()), Bool(v.F1()),
			Bool(v.F2()), Bool(v.Y()), B(nn(v.PHES())), B(nn(v.Payload())), ts))
	}
	return T(14, Unit)
}

func h265ErrClass(err error) int { return 1 }

func runH265History(donl, skip bool, calls []Tok) Outcome {
	var o Outcome
	p := &codecs.H265Payloader{AddDONL: donl, SkipAggregation: skip}
	res := VList{}
	var guards []*guarded
	for ci, c := range calls {
		l := tokList(c)
		mtu, in := uint16(tokInt(l[0])), tokBytes(l[1])
		g, buf := newGuarded(in)
		guards = append(guards, g)
		var frags [][]byte
		if pn, what := catch(func() { frags = p.Payload(mtu, buf) }); pn {
			res = append(res, PanicV())
			o.Fail = fmt.Sprintf("call %d: panic %s", ci, what)
			break
		}
		items := VList{}
		for fi, f := range frags {
			own := true
			for _, gg := range guards {
				if overlaps(f, gg.whole) {
					own = false
				}
			}
			items = append(items, L(Bool(own), B(f)))
			if !own {
				o.Fail = fmt.Sprintf("call %d: fragment %d aliases a caller buffer", ci, fi)
			}
			if len(f) > int(mtu) {
				o.Fail = fmt.Sprintf("call %d: fragment %d has %d bytes, MTU %d", ci, fi, len(f), mtu)
			}
			if len(f) == 0 {
				o.Fail = fmt.Sprintf("call %d: empty fragment", ci)
			}
			if why := checkH265AggHeader(f, donl); why != "" && o.Fail == "" {
				o.Fail = fmt.Sprintf("call %d: fragment %d: %s", ci, fi, why)
			}
		}
		res = append(res, OkV(items))
		if !g.intact(in) {
			o.Fail = fmt.Sprintf("call %d: input modified", ci)
		}
		g.scribble(byte(0x3C + ci))
		o.Tags = append(o.Tags, "h265pay frags "+sizeBucket(len(frags)))
		if len(frags) >= 2 {
			o.Nontrivial = true
		}
	}
	o.Impl = res
	return o
}

// RFC 7798 4.4.2: an aggregation packet's payload header carries F = 0 (no unit has it set here),
// type 48, and the lowest LayerId and the lowest TID of the aggregated units, each taken separately.
// Walks the packet independently of the library's parser.
func checkH265AggHeader(f []byte, donl bool) string {
	if len(f) < 4 || (f[0]>>1)&0x3F != 48 {
		return ""
	}
	hl, ht := int(f[0]&1)<<5|int(f[1]>>3), int(f[1]&7)
	off, n := 2, 0
	minL, minT := 64, 8
	for off < len(f) {
		if donl {
			if n == 0 {
				off += 2
			} else {
				off++
			}
		}
		if off+2 > len(f) {
			break
		}
		sz := int(f[off])<<8 | int(f[off+1])
		off += 2
		if sz < 2 || off+sz > len(f) {
			return "" // not an aggregation packet this walk can judge (e.g. an input unit that itself has type 48)
		}
		if l := int(f[off]&1)<<5 | int(f[off+1]>>3); l < minL {
			minL = l
		}
		if t := int(f[off+1] & 7); t < minT {
			minT = t
		}
		off += sz
		n++
	}
	if n < 2 || off != len(f) {
		return ""
	}
	if hl != minL || ht != minT {
		return fmt.Sprintf("aggregation header carries layer id %d / TID %d, the units' minima are %d / %d", hl, ht, minL, minT)
	}
	return ""
}

func runH265Parse(donl bool, payloads [][]byte) Outcome {
	var o Outcome
	d := &codecs.H265Packet{}
	d.WithDONL(donl)
	res := VList{}
	for i, in := range payloads {
		g, buf := newGuarded(in)
		var err error
		if pn, what := catch(func() { _, err = d.Unmarshal(buf) }); pn {
			res = append(res, L(PanicV(), Bool(false)))
			o.Fail = fmt.Sprintf("step %d: panic %s", i, what)
			d = &codecs.H265Packet{}
			d.WithDONL(donl)
			continue
		}
		head := d.IsPartitionHead(buf)
		if !g.intact(in) {
			o.Fail = fmt.Sprintf("step %d: input modified", i)
		}
		// RFC 7798 4.4.3, from the bytes: only a fragmentation unit (type 49, bits 1-6 of the first byte,
		// whatever the F bit says) without its S bit is not the head of a partition
		// (judged on payloads the parser accepts and on fragmentation units, which the payloader emits with the
		// unit's F bit and the parser refuses when it is set: what the predicate says about a string that is no
		// RFC 7798 payload at all is nobody's clause - C09 asks only that it does not panic)
		if wantHead := len(in) >= 3 && !(in[0]>>1&0x3F == 49 && in[2]&0x80 == 0); (err == nil || len(in) >= 3 && in[0]>>1&0x3F == 49) && head != wantHead && o.Fail == "" {
			o.Fail = fmt.Sprintf("step %d: IsPartitionHead(%x) = %v, the payload header and FU header say %v", i, in[:minInt(len(in), 4)], head, wantHead)
		}
		if err != nil {
			res = append(res, L(ErrV(1), Bool(head)))
			o.Tags = append(o.Tags, "h265 rejected")
			continue
		}
		o.Nontrivial = true
		o.Tags = append(o.Tags, "h265 accepted")
		res = append(res, L(OkV(vH265Packet(d)), Bool(head)))
		// reuse: a fresh receiver must report the same structure and fields
		f := &codecs.H265Packet{}
		f.WithDONL(donl)
		if _, e2 := f.Unmarshal(append([]byte{}, in...)); e2 != nil || Render(vH265Packet(f)) != Render(vH265Packet(d)) {
			o.Fail = fmt.Sprintf("step %d: reused receiver reports %s, a fresh one %s", i, Render(vH265Packet(d)), Render(vH265Packet(f)))
		}
	}
	o.Impl = res
	return o
}

// RFC 7798 section 6 reassembly of parsed payloads back into NAL units (no DONL handling needed
// beyond skipping the fields the parser already removed)
func h265Reassemble(donl bool, frags [][]byte) (nals [][]byte, why string) {
	var cur []byte
	open := false
	for fi, f := range frags {
		d := &codecs.H265Packet{}
		d.WithDONL(donl)
		if _, err := d.Unmarshal(f); err != nil {
			return nil, fmt.Sprintf("payload %d rejected by H265Packet: %v", fi, err)
		}
		switch v := d.Packet().(type) {
		case *codecs.H265SingleNALUnitPacket:
			h := v.PayloadHeader()
			nals = append(nals, append([]byte{byte(h >> 8), byte(h)}, v.Payload()...))
		case *codecs.H265AggregationPacket:
			nals = append(nals, append([]byte{}, v.FirstUnit().NalUnit()...))
			for _, u := range v.OtherUnits() {
				nals = append(nals, append([]byte{}, u.NalUnit()...))
			}
		case *codecs.H265FragmentationUnitPacket:
			fh := v.FuHeader()
			if fh.S() {
				if open {
					return nil, "FU start while a unit is open"
				}
				if fh.E() {
					return nil, "FU with S and E"
				}
				h := v.PayloadHeader()
				cur = []byte{byte(h>>8)&0x81 | fh.FuType()<<1, byte(h)}
				open = true
			} else if !open {
				return nil, "FU continuation without start"
			}
			cur = append(cur, v.Payload()...)
			if fh.E() {
				nals = append(nals, cur)
				cur, open = nil, false
			}
		default:
			return nil, "unexpected payload structure"
		}
	}
	if open {
		return nil, "fragmented unit never ended (no E bit)"
	}
	return nals, ""
}

// ---- op 1406: donl skip [[mtu [[sc xnal]...]]...] - the lossless clause, self-describing ---------
// The NAL units of every call are given with their start-code length; the runner builds the Annex-B
// stream, runs one payloader over the calls, parses and reassembles the packets per RFC 7798 and
// compares with the units.  A failure is classified as a known finding only if it is *exactly* that
// finding: the tolerant reassembly that undoes it (a DONL in every FU) must reproduce the units.

func h265Units(calls []Tok) (streams [][]byte, mtus []int, nals [][]byte) {
	for _, c := range calls {
		l := tokList(c)
		var in []byte
		for _, u := range tokList(l[1]) {
			ul := tokList(u)
			if tokInt(ul[0]) == 3 {
				in = append(in, 0, 0, 1)
			} else {
				in = append(in, 0, 0, 0, 1)
			}
			n := tokBytes(ul[1])
			in = append(in, n...)
			nals = append(nals, n)
		}
		streams = append(streams, in)
		mtus = append(mtus, int(tokInt(l[0])))
	}
	return
}

// tolerant reassembly: like h265Reassemble, but (donlEveryFU) every FU carries a DONL, not only the
// first, and (loneFU) a start fragment that is not followed by a continuation is a complete unit
func h265ReassembleTolerant(donl bool, frags [][]byte, donlEveryFU, loneFU bool) (nals [][]byte, ok bool) {
	var cur []byte
	open := false
	flush := func() {
		if open {
			nals = append(nals, cur)
			cur, open = nil, false
		}
	}
	for _, f := range frags {
		if len(f) < 3 {
			return nil, false
		}
		ty := (f[0] >> 1) & 0x3F
		switch {
		case ty == 49:
			s, e := f[2]&0x80 != 0, f[2]&0x40 != 0
			body := f[3:]
			if donl && (s || donlEveryFU) {
				if len(body) < 2 {
					return nil, false
				}
				body = body[2:]
			}
			if s {
				if open && !loneFU {
					return nil, false
				}
				flush()
				cur = []byte{f[0]&0x81 | (f[2]&0x3F)<<1, f[1]}
				open = true
			} else if !open {
				return nil, false
			}
			cur = append(cur, body...)
			if e {
				flush()
			}
		case ty == 48:
			if open && !loneFU {
				return nil, false
			}
			flush()
			off, n := 2, 0
			for off < len(f) {
				if donl {
					if n == 0 {
						off += 2
					} else {
						off++
					}
				}
				if off+2 > len(f) {
					return nil, false
				}
				sz := int(f[off])<<8 | int(f[off+1])
				off += 2
				if off+sz > len(f) {
					return nil, false
				}
				nals = append(nals, f[off:off+sz])
				off += sz
				n++
			}
		default:
			if open && !loneFU {
				return nil, false
			}
			flush()
			if donl {
				if len(f) < 5 {
					return nil, false
				}
				nals = append(nals, append([]byte{f[0], f[1]}, f[4:]...))
			} else {
				nals = append(nals, f)
			}
		}
	}
	if open && !loneFU {
		return nil, false
	}
	flush()
	return nals, true
}

func sameUnits(a, b [][]byte) bool {
	if len(a) != len(b) {
		return false
	}
	for i := range a {
		if !bytes.Equal(a[i], b[i]) {
			return false
		}
	}
	return true
}

// annexBCarriable: a unit an Annex-B stream can carry as given - no start code (or 00 00 00) inside, no zero
// byte at the end.  The lossless oracles judge only such units: a case that is not of this form is a slip of
// its generator, not a statement about the library.
func annexBCarriable(nals [][]byte) bool {
	for _, n := range nals {
		if len(n) == 0 || n[len(n)-1] == 0 {
			return false
		}
		for i := 0; i+2 < len(n); i++ {
			if n[i] == 0 && n[i+1] == 0 && n[i+2] <= 1 {
				return false
			}
		}
	}
	return true
}

func runH265Lossless(donl, skip bool, calls []Tok) Outcome {
	streams, mtus, nals := h265Units(calls)
	hist := TList{}
	for i := range streams {
		hist = append(hist, TList{TI(int64(mtus[i])), TBytes(streams[i])})
	}
	o := runH265History(donl, skip, hist)
	if o.Fail != "" {
		return o
	}
	p := &codecs.H265Payloader{AddDONL: donl, SkipAggregation: skip}
	var frags [][]byte
	for i := range streams {
		frags = append(frags, p.Payload(uint16(mtus[i]), append([]byte{}, streams[i]...))...)
	}
	if !annexBCarriable(nals) {
		o.Tags = append(o.Tags, "units not carriable in Annex-B: not judged")
		return o
	}
	got, why := h265Reassemble(donl, frags)
	if why == "" && !sameUnits(got, nals) {
		why = fmt.Sprintf("%d units reassembled, %d payloaded, or a unit differs", len(got), len(nals))
	}
	if why == "" {
		return o
	}
	o.Fail = why
	// is this exactly the known finding?  (a lone start fragment is no longer tolerated: D12 is repaired)
	if t, ok := h265ReassembleTolerant(donl, frags, donl, false); donl && ok && sameUnits(t, nals) {
		o.Known = "KF-C14-donl-every-fu"
	}
	return o
}

// ---- independent RFC 7798 encoder (parser clause of C14) -----------------------------------
// form tokens: [0 ty layer tid donl xpayload] single | [1 layer tid donl xfirst [[dond xunit]...]] aggregation
//              [2 layer tid s e futype donl xpayload] FU | [3 layer tid a ctype phs f0 f1 f2 y xphes xpayload] PACI

func genRfc7798Form(c *RNG) TList {
	layer, tid := int64(c.Pick(0, 1, 63, c.Intn(64))), int64(c.Pick(0, 1, 7, c.Intn(8)))
	donl := int64(c.Pick(0, 1, 255, 256, 65535, c.Intn(65536)))
	payload := func(min int) Tok { return TBytes(c.Bytes(min + c.Intn(8))) }
	switch c.Intn(4) {
	case 0:
		return TList{TI(0), TI(int64(c.Intn(48))), TI(layer), TI(tid), TI(donl), payload(1)}
	case 1:
		os := TList{}
		for u, un := 0, 1+c.Intn(4); u < un; u++ {
			os = append(os, TList{TI(int64(c.Pick(0, 1, 255, c.Intn(256)))), TBytes(c.Bytes(c.Pick(0, 1, 2, 2+c.Intn(9))))})
		}
		return TList{TI(1), TI(layer), TI(tid), TI(donl), TBytes(c.Bytes(c.Pick(0, 2, 2+c.Intn(9)))), os}
	case 2:
		return TList{TI(2), TI(layer), TI(tid), TI(b2i(c.Bool())), TI(b2i(c.Bool())), TI(int64(c.Pick(0, 1, 19, 32, 63, c.Intn(64)))), TI(donl), payload(1)}
	}
	phs := c.Pick(0, 1, 2, 3, 3, 4, 15, 16, 19, 31, c.Intn(32))
	return TList{TI(3), TI(layer), TI(tid), TI(b2i(c.Bool())), TI(int64(c.Pick(0, 1, 33, 63, c.Intn(64)))), TI(int64(phs)),
		TI(b2i(c.Intn(3) != 0)), TI(b2i(c.Bool())), TI(b2i(c.Bool())), TI(b2i(c.Bool())), TBytes(c.Bytes(phs)), payload(1)}
}

func be16b(v int64) []byte { return []byte{byte(v >> 8), byte(v)} }

// rfc7798Encode is written from RFC 7798 4.4.1-4.4.4 and shares no code with the library.
func rfc7798Encode(donl bool, f []Tok) []byte {
	hdr := func(ty, layer, tid int64) []byte { return be16b(ty<<9 | layer<<3 | tid) }
	switch tokInt(f[0]) {
	case 0:
		b := hdr(tokInt(f[1]), tokInt(f[2]), tokInt(f[3]))
		if donl {
			b = append(b, be16b(tokInt(f[4]))...)
		}
		return append(b, tokBytes(f[5])...)
	case 1:
		b := hdr(48, tokInt(f[1]), tokInt(f[2]))
		if donl {
			b = append(b, be16b(tokInt(f[3]))...)
		}
		first := tokBytes(f[4])
		b = append(append(b, be16b(int64(len(first)))...), first...)
		for _, o := range tokList(f[5]) {
			ol := tokList(o)
			if donl {
				b = append(b, byte(tokInt(ol[0])))
			}
			u := tokBytes(ol[1])
			b = append(append(b, be16b(int64(len(u)))...), u...)
		}
		return b
	case 2:
		b := hdr(49, tokInt(f[1]), tokInt(f[2]))
		s, e := tokInt(f[3]) != 0, tokInt(f[4]) != 0
		fh := byte(tokInt(f[5]))
		if s {
			fh |= 0x80
		}
		if e {
			fh |= 0x40
		}
		b = append(b, fh)
		if donl && s {
			b = append(b, be16b(tokInt(f[6]))...)
		}
		return append(b, tokBytes(f[7])...)
	}
	b := hdr(50, tokInt(f[1]), tokInt(f[2]))
	w := tokInt(f[4])<<9 | tokInt(f[5])<<4 | tokInt(f[6])<<3 | tokInt(f[7])<<2 | tokInt(f[8])<<1 | tokInt(f[9])
	if tokInt(f[3]) != 0 {
		w |= 0x8000
	}
	b = append(b, be16b(w)...)
	b = append(b, tokBytes(f[10])...)
	return append(b, tokBytes(f[11])...)
}

// rfc7798MinLen is the length of the structure a form cannot do without (RFC 7798 4.4.1-4.4.4): a
// payload cut before it cannot be told from garbage and must be refused (C14_parse_truncated).
func rfc7798MinLen(donl bool, f []Tok) int {
	d2 := 0
	if donl {
		d2 = 2
	}
	switch tokInt(f[0]) {
	case 0:
		return 3 + d2
	case 1:
		n := 2 + d2 + 2 + len(tokBytes(f[4])) + 2 + len(tokBytes(tokList(tokList(f[5])[0])[1]))
		if donl {
			n++
		}
		return n
	case 2:
		if donl && tokInt(f[3]) != 0 {
			return 6
		}
		return 4
	}
	return 5 + int(tokInt(f[5]))
}

func runRfc7798Form(donl bool, f []Tok) Outcome {
	wire := rfc7798Encode(donl, f)
	o := runH265Parse(donl, [][]byte{wire})
	o.Impl = L(B(wire), o.Impl)
	o.Nontrivial = true
	if o.Fail != "" {
		return o
	}
	fail := func(format string, a ...interface{}) {
		if o.Fail == "" {
			o.Fail = fmt.Sprintf(format, a...)
		}
	}
	// "... and reject truncated ones": every prefix shorter than the form's minimal structure
	for k := 0; k < rfc7798MinLen(donl, f) && k <= len(wire); k++ {
		t := &codecs.H265Packet{}
		t.WithDONL(donl)
		var err error
		if pn, msg := catch(func() { _, err = t.Unmarshal(append([]byte{}, wire[:k]...)) }); pn {
			fail("H265Packet.Unmarshal panicked on the %d-byte truncation of %x: %s", k, wire, msg)
		} else if err == nil {
			fail("the %d-byte truncation of the well-formed RFC 7798 payload %x (minimal structure %d bytes) was accepted", k, wire, rfc7798MinLen(donl, f))
		}
	}
	if tokInt(f[0]) == 1 {
		// an aggregation packet cut anywhere behind its second unit: on the boundary of a unit the prefix is
		// itself an aggregation packet (of fewer units) and is accepted with exactly those units; everywhere
		// else a unit is cut short and the packet must be refused, not delivered without it
		boundary := map[int]int{}
		pos := rfc7798MinLen(donl, f)
		boundary[pos] = 1
		for i, u := range tokList(f[5])[1:] {
			pos += len(tokBytes(tokList(u)[1])) + 2
			if donl {
				pos++
			}
			boundary[pos] = i + 2
		}
		for k := rfc7798MinLen(donl, f); k < len(wire); k++ {
			t := &codecs.H265Packet{}
			t.WithDONL(donl)
			var err error
			if pn, msg := catch(func() { _, err = t.Unmarshal(append([]byte{}, wire[:k]...)) }); pn {
				fail("H265Packet.Unmarshal panicked on the %d-byte truncation of %x: %s", k, wire, msg)
				continue
			}
			units, onBoundary := boundary[k]
			switch {
			case !onBoundary && err == nil:
				fail("the %d-byte truncation of the aggregation packet %x, which cuts a unit short, was accepted", k, wire)
			case onBoundary && err != nil:
				fail("the %d-byte prefix of %x, itself an aggregation packet of %d further units, was rejected: %v", k, wire, units, err)
			case onBoundary:
				if ap, ok := t.Packet().(*codecs.H265AggregationPacket); !ok || len(ap.OtherUnits()) != units {
					fail("the %d-byte prefix of %x did not decode to %d further units", k, wire, units)
				}
			}
		}
	}
	d := &codecs.H265Packet{}
	d.WithDONL(donl)
	if _, err := d.Unmarshal(append([]byte{}, wire...)); err != nil {
		if tokInt(f[0]) == 2 && tokInt(f[3]) != 0 && tokInt(f[4]) != 0 {
			// a fragment with S and E both set is not well-formed (RFC 7798 4.4.3: MUST NOT): a parser may refuse it
			return o
		}
		fail("well-formed RFC 7798 payload %x rejected: %v", wire, err)
		return o
	}
	chkHdr := func(h codecs.H265NALUHeader, ty, layer, tid int64) {
		if h.F() || int64(h.Type()) != ty || int64(h.LayerID()) != layer || int64(h.TID()) != tid {
			fail("payload header decoded as F=%v type=%d layer=%d tid=%d, encoded type=%d layer=%d tid=%d", h.F(), h.Type(), h.LayerID(), h.TID(), ty, layer, tid)
		}
	}
	chkDonl := func(got *uint16, present bool, want int64) {
		if (got != nil) != present || (present && int64(*got) != want) {
			fail("DONL decoded wrongly (present=%v)", got != nil)
		}
	}
	switch v := d.Packet().(type) {
	case *codecs.H265SingleNALUnitPacket:
		if tokInt(f[0]) != 0 {
			fail("decoded as a single NAL unit packet")
			break
		}
		chkHdr(v.PayloadHeader(), tokInt(f[1]), tokInt(f[2]), tokInt(f[3]))
		chkDonl(v.DONL(), donl, tokInt(f[4]))
		if !bytes.Equal(v.Payload(), tokBytes(f[5])) {
			fail("single NAL unit payload differs")
		}
	case *codecs.H265AggregationPacket:
		if tokInt(f[0]) != 1 {
			fail("decoded as an aggregation packet")
			break
		}
		chkDonl(v.FirstUnit().DONL(), donl, tokInt(f[3]))
		os := tokList(f[5])
		if int(v.FirstUnit().NALUSize()) != len(tokBytes(f[4])) {
			fail("first aggregation unit reports NALUSize %d for a unit of %d bytes", v.FirstUnit().NALUSize(), len(tokBytes(f[4])))
		}
		if !bytes.Equal(v.FirstUnit().NalUnit(), tokBytes(f[4])) || len(v.OtherUnits()) != len(os) {
			fail("aggregation units decoded wrongly: %d other units, %d encoded", len(v.OtherUnits()), len(os))
			break
		}
		for i, u := range v.OtherUnits() {
			ol := tokList(os[i])
			if int(u.NALUSize()) != len(tokBytes(ol[1])) {
				fail("aggregation unit %d reports NALUSize %d for a unit of %d bytes", i+1, u.NALUSize(), len(tokBytes(ol[1])))
			}
			if !bytes.Equal(u.NalUnit(), tokBytes(ol[1])) || (u.DOND() != nil) != donl || (donl && int64(*u.DOND()) != tokInt(ol[0])) {
				fail("aggregation unit %d decoded wrongly", i+1)
			}
		}
	case *codecs.H265FragmentationUnitPacket:
		if tokInt(f[0]) != 2 {
			fail("decoded as a fragmentation unit")
			break
		}
		chkHdr(v.PayloadHeader(), 49, tokInt(f[1]), tokInt(f[2]))
		fh := v.FuHeader()
		s := tokInt(f[3]) != 0
		if fh.S() != s || fh.E() != (tokInt(f[4]) != 0) || int64(fh.FuType()) != tokInt(f[5]) {
			fail("FU header decoded as S=%v E=%v type=%d", fh.S(), fh.E(), fh.FuType())
		}
		chkDonl(v.DONL(), donl && s, tokInt(f[6]))
		if !bytes.Equal(v.Payload(), tokBytes(f[7])) {
			fail("FU payload differs")
		}
	case *codecs.H265PACIPacket:
		if tokInt(f[0]) != 3 {
			fail("decoded as a PACI packet")
			break
		}
		chkHdr(v.PayloadHeader(), 50, tokInt(f[1]), tokInt(f[2]))
		phes := tokBytes(f[10])
		if v.A() != (tokInt(f[3]) != 0) || int64(v.CType()) != tokInt(f[4]) || int64(v.PHSsize()) != tokInt(f[5]) ||
			v.F0() != (tokInt(f[6]) != 0) || v.F1() != (tokInt(f[7]) != 0) || v.F2() != (tokInt(f[8]) != 0) || v.Y() != (tokInt(f[9]) != 0) {
			fail("PACI fields decoded as A=%v cType=%d PHSsize=%d F0=%v F1=%v F2=%v Y=%v", v.A(), v.CType(), v.PHSsize(), v.F0(), v.F1(), v.F2(), v.Y())
		}
		if !bytes.Equal(v.PHES(), phes) || !bytes.Equal(v.Payload(), tokBytes(f[11])) {
			fail("PACI PHES / payload split wrongly: PHES %x payload %x", v.PHES(), v.Payload())
		}
		var ts *codecs.H265TSCI
		if pn, _ := catch(func() { ts = v.TSCI() }); pn {
			fail("TSCI() panicked")
			break
		}
		wantTS := tokInt(f[6]) != 0 && len(phes) >= 3
		if (ts != nil) != wantTS {
			fail("TSCI presence %v, F0=%d PHSsize=%d", ts != nil, tokInt(f[6]), len(phes))
		} else if ts != nil && (ts.TL0PICIDX() != phes[0] || ts.IrapPicID() != phes[1] || ts.S() != (phes[2]&0x80 != 0) ||
			ts.E() != (phes[2]&0x40 != 0) || ts.RES() != phes[2]&0x3F) {
			fail("TSCI fields decoded as TL0PICIDX=%d IrapPicID=%d S=%v E=%v RES=%d from PHES %x", ts.TL0PICIDX(), ts.IrapPicID(), ts.S(), ts.E(), ts.RES(), phes[:3])
		}
	default:
		fail("no payload structure decoded")
	}
	return o
}

func init() {
	run := func(op int, toks []Tok) Outcome {
		switch op {
		case 1405:
			return runRfc7798Form(tokInt(toks[0]) != 0, tokList(toks[1]))
		case 1406:
			return runH265Lossless(tokInt(toks[0]) != 0, tokInt(toks[1]) != 0, tokList(toks[2]))
		case 1401:
			return runH265History(tokInt(toks[0]) != 0, tokInt(toks[1]) != 0, tokList(toks[2]))
		case 1402:
			var ps [][]byte
			for _, t := range tokList(toks[1]) {
				ps = append(ps, tokBytes(t))
			}
			return runH265Parse(tokInt(toks[0]) != 0, ps)
		case 1403:
			var o Outcome
			h := codecs.H265NALUHeader(tokInt(toks[0]))
			o.Impl, o.Nontrivial = vNH(h), true
			// the derived predicates, against the type ranges of RFC 7798 1.1.4 / H.265 table 7-1
			ty := int(tokInt(toks[0])>>9) & 63
			if h.IsTypeVCLUnit() != (ty < 32) || h.IsAggregationPacket() != (ty == 48) || h.IsFragmentationUnit() != (ty == 49) || h.IsPACIPacket() != (ty == 50) {
				o.Fail = fmt.Sprintf("payload header %#04x (type %d): IsTypeVCLUnit=%v IsAggregationPacket=%v IsFragmentationUnit=%v IsPACIPacket=%v",
					tokInt(toks[0]), ty, h.IsTypeVCLUnit(), h.IsAggregationPacket(), h.IsFragmentationUnit(), h.IsPACIPacket())
			}
			return o
		case 1404:
			var o Outcome
			h := codecs.H265FragmentationUnitHeader(tokInt(toks[0]))
			o.Impl, o.Nontrivial = L(Bool(h.S()), Bool(h.E()), I(int64(h.FuType()))), true
			return o
		}
		panic("bad op")
	}
	register(&Prop{
		ID:       "C14",
		Rule:     "HEVC NAL sequences (types 0-47, >= 3 bytes, sizes concentrated on MTU-4..MTU+2, 3/4-byte start codes) x MTU 4-1500 x SkipAggregation x AddDONL: payloader output parsed by H265Packet and reassembled per RFC 7798; forms (single, aggregation of 2-5 units, FU, PACI with PHSsize 0-31 and TSCI; boundary layer ids, TIDs, DONL/DOND values) encoded by an independent RFC 7798 encoder in Go and by Spec/Rfc7798.v, with and without DONL, decoded by H265Packet and compared field by field with the form; random, truncated and mutated payloads; payload-header accessors over a 4096-point lattice of the 16-bit domain (all 2^16 in thorough), all 256 FU headers; non-trivial = a fragmented or aggregated unit, or an accepted payload",
		Quick:    3000,
		Thorough: 150000,
		Gen: func(r *RNG, tier string, n int, emit func(op int, toks ...Tok)) {
			step := 16
			if tier == "thorough" {
				step = 1
			}
			for h := 0; h < 65536; h += step {
				emit(1403, TI(int64(h)))
			}
			for b := 0; b < 256; b++ {
				emit(1404, TI(int64(b)))
			}
			unitsTok := func(c *RNG, nals [][]byte) TList {
				us := TList{}
				for _, n := range nals {
					us = append(us, TList{TI(int64(c.Pick(3, 4))), TBytes(n)})
				}
				return us
			}
			// fixed witnesses: the repaired D12 (MTU 10, a 9-byte unit: now a single NAL unit packet) and the open
			// finding KF-C14-donl-every-fu (its KNOWN-FINDING line is printed on every run, whatever the seed)
			{
				c := r.Fork(8800)
				emit(1406, TI(0), TI(0), TList{TList{TI(10), unitsTok(c, [][]byte{{2, 1, 10, 11, 12, 13, 14, 15, 16}})}})
				emit(1406, TI(1), TI(0), TList{TList{TI(8), unitsTok(c, [][]byte{genH265Nal(c, 24)})}})
			}
			// units longer than 65535 bytes and units cut into more than 256 fragmentation units
			for k, cfg := range [][2]int{{1500, 70000}, {65535, 65533}, {65535, 65600}, {4, 3 + 300}, {7, 3 + 4*270}} {
				c := r.Fork(uint64(8000 + k))
				nals := [][]byte{genH265Nal(c, 5), genH265Nal(c, cfg[1]), genH265Nal(c, 4)}
				emit(1406, TI(0), TI(0), TList{TList{TI(int64(cfg[0])), unitsTok(c, nals)}})
			}
			for i := 0; i < n; i++ {
				c := r.Fork(uint64(i))
				// parser clause: a form for the independent RFC 7798 encoder
				wd, form := c.Bool(), genRfc7798Form(c.Fork(77))
				emit(1405, TI(b2i(wd)), form)
				if c.Intn(3) == 0 {
					// the same truncations through the model: every prefix up to two bytes beyond the minimal structure
					w := rfc7798Encode(wd, form)
					ps := TList{}
					lim := rfc7798MinLen(wd, form) + 2
					if tokInt(form[0]) == 1 {
						lim = len(w) // an aggregation packet: every prefix (cuts inside later units, D34)
					}
					for k := 0; k <= lim && k <= len(w); k++ {
						ps = append(ps, TBytes(w[:k]))
					}
					emit(1402, TI(b2i(wd)), ps)
				}
				if c.Intn(3) != 0 {
					donl, skip := c.Intn(4) == 0, c.Intn(3) == 0
					mtu := c.Pick(4, 5, 6, 7, 8, 10, 16, 30, 100, 1200, 4+c.Intn(60))
					if donl && mtu < 5 {
						mtu = 5 // payload header, DONL and one byte: nothing shorter can carry a unit with its DONL
					}
					tiny := donl && mtu == 5 // only 3-byte units can be sent at all (a fragment would have no room for payload)
					ncalls := 1 + c.Intn(2)
					var cs TList
					p := &codecs.H265Payloader{AddDONL: donl, SkipAggregation: skip}
					var frags [][]byte
					for j := 0; j < ncalls; j++ {
						var nals [][]byte
						for k, kn := 0, 1+c.Intn(5); k < kn; k++ {
							var size int
							switch c.Intn(4) {
							case 0:
								size = 3 + c.Intn(4)
							case 1:
								size = mtu - 4 + c.Intn(7)
							default:
								size = 3 + c.Intn(3*mtu)
							}
							if tiny {
								size = 3
							}
							nals = append(nals, genH265Nal(c, size))
						}
						call := TList{TI(int64(mtu)), unitsTok(c, nals)}
						cs = append(cs, call)
						streams, _, _ := h265Units([]Tok{call})
						frags = append(frags, p.Payload(uint16(mtu), streams[0])...)
					}
					// the lossless clause, self-describing (the runner holds the oracle)
					emit(1406, TI(b2i(donl)), TI(b2i(skip)), cs)
					ps := TList{}
					for _, f := range frags {
						ps = append(ps, TBytes(f))
					}
					emit(1402, TI(b2i(donl)), ps)
				} else {
					// parser inputs: random, truncated, mutated payloader output
					donl := c.Bool()
					ps := TList{}
					if c.Intn(4) == 0 {
						// runs of well-formed payloads of the same kind into one receiver (a PACI with PHES
						// then one without, an FU start then continuations, ...)
						kind := c.Intn(4)
						for k, kn := 0, 2+c.Intn(3); k < kn; k++ {
							var f TList
							for {
								f = genRfc7798Form(c.Fork(uint64(100 + k)))
								if int(tokInt(f[0])) == kind {
									break
								}
								c.Intn(2)
							}
							ps = append(ps, TBytes(rfc7798Encode(donl, f)))
						}
						emit(1402, TI(b2i(donl)), ps)
						continue
					}
					for k, kn := 0, 1+c.Intn(4); k < kn; k++ {
						var b []byte
						switch c.Intn(5) {
						case 0:
							b = c.Bytes(c.Intn(12))
						case 1: // PACI
							phs := c.Pick(0, 1, 3, 3, 5, 31)
							f := uint16(c.Intn(2))<<15 | uint16(c.Intn(64))<<9 | uint16(phs)<<4 | uint16(c.Intn(16))
							b = append([]byte{50 << 1, byte(1 + c.Intn(7)), byte(f >> 8), byte(f)}, c.Bytes(phs+c.Intn(6))...)
						case 2: // aggregation
							b = []byte{48 << 1, 1}
							if donl {
								b = append(b, c.Bytes(2)...)
							}
							for u, un := 0, 1+c.Intn(3); u < un; u++ {
								if donl && u > 0 {
									b = append(b, byte(c.Intn(256)))
								}
								sz := c.Intn(6)
								b = append(b, 0, byte(sz))
								b = append(b, c.Bytes(sz)...)
							}
						case 3: // FU
							b = append([]byte{49 << 1, 1, byte(c.Intn(256))}, c.Bytes(c.Intn(8))...)
						default:
							b = append([]byte{byte(c.Intn(48)) << 1, 1}, c.Bytes(c.Intn(8))...)
						}
						if c.Intn(4) == 0 {
							b = b[:c.Intn(len(b)+1)]
						}
						if c.Intn(30) == 0 {
							b = nil
						}
						ps = append(ps, TB(b))
					}
					emit(1402, TI(b2i(donl)), ps)
				}
			}
		},
		Run: run,
	})
}
