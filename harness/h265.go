package main

import (
	"bytes"
	"fmt"

	"github.com/pion/rtp/codecs"
)

// H265 (C14 and the H265 instances of C08/C09).
// opcodes: 1401 addDONL skipAggregation [[mtu annexb]...]   one H265Payloader, a history of calls
//          1402 withDONL [payloads...]                       H265Packet.Unmarshal of each payload
//          1403 h   payload-header accessors of the 16-bit value h
//          1404 b   FU-header accessors of the byte b

func genH265Nal(c *RNG, size int) []byte {
	if size < 3 {
		size = 3
	}
	b := genNalBody(c, size)
	typ := c.Intn(48)
	b[0] = byte(typ)<<1 | byte(c.Intn(2)) // F = 0, top bit of layer id
	b[1] = byte(c.Intn(32))<<3 | byte(1+c.Intn(7))
	if b[2] == 0 && b[1] == 0 {
		b[2] = 3
	}
	return b
}

func vNH(h codecs.H265NALUHeader) Val {
	return L(Bool(h.F()), I(int64(h.Type())), I(int64(h.LayerID())), I(int64(h.TID())))
}

func optU16(p *uint16) Val {
	if p == nil {
		return T(1, Unit)
	}
	return T(0, I(int64(*p)))
}

func optU8(p *uint8) Val {
	if p == nil {
		return T(1, Unit)
	}
	return T(0, I(int64(*p)))
}

func nn(b []byte) []byte {
	if b == nil {
		return []byte{}
	}
	return b
}

func vH265Packet(d *codecs.H265Packet) Val {
	switch v := d.Packet().(type) {
	case *codecs.H265SingleNALUnitPacket:
		return T(10, L(vNH(v.PayloadHeader()), optU16(v.DONL()), B(nn(v.Payload()))))
	case *codecs.H265AggregationPacket:
		os := VList{}
		for _, u := range v.OtherUnits() {
			os = append(os, L(optU8(u.DOND()), B(nn(u.NalUnit()))))
		}
		return T(11, L(optU16(v.FirstUnit().DONL()), B(nn(v.FirstUnit().NalUnit())), os))
	case *codecs.H265FragmentationUnitPacket:
		fh := v.FuHeader()
		return T(12, L(vNH(v.PayloadHeader()), Bool(fh.S()), Bool(fh.E()), I(int64(fh.FuType())), optU16(v.DONL()), B(nn(v.Payload()))))
	case *codecs.H265PACIPacket:
		var ts Val = T(1, Unit)
		if pn, _ := catch(func() {
			if t := v.TSCI(); t != nil {
				ts = T(0, L(I(int64(t.TL0PICIDX())), I(int64(t.IrapPicID())), Bool(t.S()), Bool(t.E()), I(int64(t.RES()))))
			}
		}); pn {
			ts = T(2, Unit)
		}
		return T(13, L(vNH(v.PayloadHeader()), Bool(v.A()), I(int64(v.CType())), I(int64(v.PHSsize())), Bool(v.F0()), Bool(v.F1()),
			Bool(v.F2()), Bool(v.Y()), B(nn(v.PHES())), B(nn(v.Payload())), ts))
	}
	return T(14, Unit)
}

func h265ErrClass(err error) int { return 1 }

func runH265History(donl, skip bool, calls []Tok) Outcome {
	var o Outcome
	p := &codecs.H265Payloader{AddDONL: donl, SkipAggregation: skip}
	res := VList{}
	var guards []*guarded
	for ci, c := range calls {
		l := tokList(c)
		mtu, in := uint16(tokInt(l[0])), tokBytes(l[1])
		g, buf := newGuarded(in)
		guards = append(guards, g)
		var frags [][]byte
		if pn, what := catch(func() { frags = p.Payload(mtu, buf) }); pn {
			res = append(res, PanicV())
			o.Fail = fmt.Sprintf("call %d: panic %s", ci, what)
			break
		}
		items := VList{}
		for fi, f := range frags {
			own := true
			for _, gg := range guards {
				if overlaps(f, gg.whole) {
					own = false
				}
			}
			items = append(items, L(Bool(own), B(f)))
			if !own {
				o.Fail = fmt.Sprintf("call %d: fragment %d aliases a caller buffer", ci, fi)
			}
			if len(f) > int(mtu) {
				o.Fail = fmt.Sprintf("call %d: fragment %d has %d bytes, MTU %d", ci, fi, len(f), mtu)
			}
			if len(f) == 0 {
				o.Fail = fmt.Sprintf("call %d: empty fragment", ci)
			}
		}
		res = append(res, OkV(items))
		if !g.intact(in) {
			o.Fail = fmt.Sprintf("call %d: input modified", ci)
		}
		g.scribble(byte(0x3C + ci))
		o.Tags = append(o.Tags, "h265pay frags "+sizeBucket(len(frags)))
		if len(frags) >= 2 {
			o.Nontrivial = true
		}
	}
	o.Impl = res
	return o
}

func runH265Parse(donl bool, payloads [][]byte) Outcome {
	var o Outcome
	d := &codecs.H265Packet{}
	d.WithDONL(donl)
	res := VList{}
	for i, in := range payloads {
		g, buf := newGuarded(in)
		var err error
		if pn, what := catch(func() { _, err = d.Unmarshal(buf) }); pn {
			res = append(res, L(PanicV(), Bool(false)))
			o.Fail = fmt.Sprintf("step %d: panic %s", i, what)
			d = &codecs.H265Packet{}
			d.WithDONL(donl)
			continue
		}
		head := d.IsPartitionHead(buf)
		if !g.intact(in) {
			o.Fail = fmt.Sprintf("step %d: input modified", i)
		}
		if err != nil {
			res = append(res, L(ErrV(1), Bool(head)))
			o.Tags = append(o.Tags, "h265 rejected")
			continue
		}
		o.Nontrivial = true
		o.Tags = append(o.Tags, "h265 accepted")
		res = append(res, L(OkV(vH265Packet(d)), Bool(head)))
	}
	o.Impl = res
	return o
}

// RFC 7798 section 6 reassembly of parsed payloads back into NAL units (no DONL handling needed
// beyond skipping the fields the parser already removed)
func h265Reassemble(donl bool, frags [][]byte) (nals [][]byte, why string) {
	var cur []byte
	open := false
	for fi, f := range frags {
		d := &codecs.H265Packet{}
		d.WithDONL(donl)
		if _, err := d.Unmarshal(f); err != nil {
			return nil, fmt.Sprintf("payload %d rejected by H265Packet: %v", fi, err)
		}
		switch v := d.Packet().(type) {
		case *codecs.H265SingleNALUnitPacket:
			h := v.PayloadHeader()
			nals = append(nals, append([]byte{byte(h >> 8), byte(h)}, v.Payload()...))
		case *codecs.H265AggregationPacket:
			nals = append(nals, append([]byte{}, v.FirstUnit().NalUnit()...))
			for _, u := range v.OtherUnits() {
				nals = append(nals, append([]byte{}, u.NalUnit()...))
			}
		case *codecs.H265FragmentationUnitPacket:
			fh := v.FuHeader()
			if fh.S() {
				if open {
					return nil, "FU start while a unit is open"
				}
				if fh.E() {
					return nil, "FU with S and E"
				}
				h := v.PayloadHeader()
				cur = []byte{byte(h>>8)&0x81 | fh.FuType()<<1, byte(h)}
				open = true
			} else if !open {
				return nil, "FU continuation without start"
			}
			cur = append(cur, v.Payload()...)
			if fh.E() {
				nals = append(nals, cur)
				cur, open = nil, false
			}
		default:
			return nil, "unexpected payload structure"
		}
	}
	if open {
		return nil, "fragmented unit never ended (no E bit)"
	}
	return nals, ""
}

func init() {
	run := func(op int, toks []Tok) Outcome {
		switch op {
		case 1401:
			return runH265History(tokInt(toks[0]) != 0, tokInt(toks[1]) != 0, tokList(toks[2]))
		case 1402:
			var ps [][]byte
			for _, t := range tokList(toks[1]) {
				ps = append(ps, tokBytes(t))
			}
			return runH265Parse(tokInt(toks[0]) != 0, ps)
		case 1403:
			var o Outcome
			o.Impl, o.Nontrivial = vNH(codecs.H265NALUHeader(tokInt(toks[0]))), true
			return o
		case 1404:
			var o Outcome
			h := codecs.H265FragmentationUnitHeader(tokInt(toks[0]))
			o.Impl, o.Nontrivial = L(Bool(h.S()), Bool(h.E()), I(int64(h.FuType()))), true
			return o
		}
		panic("bad op")
	}
	register(&Prop{
		ID:       "C14",
		Rule:     "HEVC NAL sequences (types 0-47, >= 3 bytes, sizes concentrated on MTU-4..MTU+2, 3/4-byte start codes) x MTU 4-1500 x SkipAggregation x AddDONL: payloader output parsed by H265Packet and reassembled per RFC 7798; payloads from an independent RFC 7798 encoder (single, aggregation, FU, PACI with TSCI, with/without DONL) and their truncations and mutations; payload-header accessors over a 4096-point lattice of the 16-bit domain (all 2^16 in thorough), all 256 FU headers; non-trivial = a fragmented or aggregated unit, or an accepted payload",
		Quick:    3000,
		Thorough: 150000,
		Gen: func(r *RNG, tier string, n int, emit func(op int, toks ...Tok)) {
			step := 16
			if tier == "thorough" {
				step = 1
			}
			for h := 0; h < 65536; h += step {
				emit(1403, TI(int64(h)))
			}
			for b := 0; b < 256; b++ {
				emit(1404, TI(int64(b)))
			}
			for i := 0; i < n; i++ {
				c := r.Fork(uint64(i))
				if c.Intn(3) != 0 {
					donl, skip := c.Intn(4) == 0, c.Intn(3) == 0
					mtu := c.Pick(4, 5, 6, 7, 8, 10, 16, 30, 100, 1200, 4+c.Intn(60))
					if donl && mtu < 6 {
						mtu = 6
					}
					ncalls := 1 + c.Intn(2)
					var cs TList
					var all [][]byte
					p := &codecs.H265Payloader{AddDONL: donl, SkipAggregation: skip}
					var frags [][]byte
					for j := 0; j < ncalls; j++ {
						var nals [][]byte
						for k, kn := 0, 1+c.Intn(5); k < kn; k++ {
							var size int
							switch c.Intn(4) {
							case 0:
								size = 3 + c.Intn(4)
							case 1:
								size = mtu - 4 + c.Intn(7)
							default:
								size = 3 + c.Intn(3*mtu)
							}
							nals = append(nals, genH265Nal(c, size))
						}
						all = append(all, nals...)
						in := annexB(c, nals)
						cs = append(cs, TList{TI(int64(mtu)), TBytes(in)})
						frags = append(frags, p.Payload(uint16(mtu), append([]byte{}, in...))...)
					}
					// oracle on the abstract description
					got, why := h265Reassemble(donl, frags)
					fail, known := "", ""
					if why != "" {
						fail = why
					} else if len(got) != len(all) {
						fail = fmt.Sprintf("%d units reassembled, %d payloaded", len(got), len(all))
					} else {
						for k := range got {
							if !bytes.Equal(got[k], all[k]) {
								fail = fmt.Sprintf("unit %d differs after reassembly", k)
								break
							}
						}
					}
					if fail != "" {
						if donl {
							known = "KF-C14-donl-every-fu"
							// only when some unit was fragmented
						}
						for _, nal := range all {
							if (!donl && len(nal) == mtu-1) || (donl && len(nal) == mtu-3) {
								known = "KF-C14-lone-fu"
							}
						}
						line := CaseLine(1401, TI(b2i(donl)), TI(b2i(skip)), cs)
						pendingFailures = append(pendingFailures, pendingFailure{line, fail, known})
					}
					emit(1401, TI(b2i(donl)), TI(b2i(skip)), cs)
					ps := TList{}
					for _, f := range frags {
						ps = append(ps, TBytes(f))
					}
					emit(1402, TI(b2i(donl)), ps)
				} else {
					// parser inputs: random, truncated, mutated payloader output
					donl := c.Bool()
					ps := TList{}
					for k, kn := 0, 1+c.Intn(4); k < kn; k++ {
						var b []byte
						switch c.Intn(5) {
						case 0:
							b = c.Bytes(c.Intn(12))
						case 1: // PACI
							phs := c.Pick(0, 1, 3, 3, 5, 31)
							f := uint16(c.Intn(2))<<15 | uint16(c.Intn(64))<<9 | uint16(phs)<<4 | uint16(c.Intn(16))
							b = append([]byte{50 << 1, byte(1 + c.Intn(7)), byte(f >> 8), byte(f)}, c.Bytes(phs+c.Intn(6))...)
						case 2: // aggregation
							b = []byte{48 << 1, 1}
							if donl {
								b = append(b, c.Bytes(2)...)
							}
							for u, un := 0, 1+c.Intn(3); u < un; u++ {
								if donl && u > 0 {
									b = append(b, byte(c.Intn(256)))
								}
								sz := c.Intn(6)
								b = append(b, 0, byte(sz))
								b = append(b, c.Bytes(sz)...)
							}
						case 3: // FU
							b = append([]byte{49 << 1, 1, byte(c.Intn(256))}, c.Bytes(c.Intn(8))...)
						default:
							b = append([]byte{byte(c.Intn(48)) << 1, 1}, c.Bytes(c.Intn(8))...)
						}
						if c.Intn(4) == 0 {
							b = b[:c.Intn(len(b)+1)]
						}
						if c.Intn(30) == 0 {
							b = nil
						}
						ps = append(ps, TB(b))
					}
					emit(1402, TI(b2i(donl)), ps)
				}
			}
		},
		Run: run,
	})
}
