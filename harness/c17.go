package main

import (
	"bytes"
	"encoding/binary"
	"fmt"
	"math/big"
	"time"

	"github.com/pion/rtp"
)

// C17: fixed-size header-extension payload codecs are bit-exact and total.
// C18: NTP time mapping and send-time estimation.

func optI64Tok(p *int64) Tok {
	if p == nil {
		return TNil{}
	}
	return TI(*p)
}

func optI64Val(p *int64) Val {
	if p == nil {
		return T(1, Unit)
	}
	return T(0, I(*p))
}

func tokOptI64(t Tok) *int64 {
	if _, ok := t.(TNil); ok {
		return nil
	}
	v := tokInt(t)
	return &v
}

func resBytes(b []byte, err error) Val {
	if err != nil {
		return errV(err)
	}
	return OkV(B(b))
}

func TU(n uint64) Tok { return TInt{new(big.Int).SetUint64(n)} }

func runC17(op int, toks []Tok) Outcome {
	var o Outcome
	o.Nontrivial = true
	switch op {
	case 1701:
		level, voice := uint8(tokInt(toks[0])), tokInt(toks[1]) != 0
		b, err := rtp.AudioLevelExtension{Level: level, Voice: voice}.Marshal()
		o.Impl = resBytes(b, err)
		o.Tags = []string{"audiolevel marshal"}
		if level > 127 {
			if err == nil {
				o.Fail = "out-of-range level encoded"
			}
		} else {
			want := level
			if voice {
				want |= 0x80
			}
			if err != nil || len(b) != 1 || b[0] != want {
				o.Fail = "wrong RFC 6464 layout"
			}
			var back rtp.AudioLevelExtension
			if e := back.Unmarshal(b); e != nil || back.Level != level || back.Voice != voice {
				o.Fail = "unmarshal(marshal) differs"
			}
		}
	case 1702:
		prev := rtp.AudioLevelExtension{Level: uint8(tokInt(toks[0])), Voice: tokInt(toks[1]) != 0}
		raw := tokBytes(toks[2])
		var err error
		if pn, what := catch(func() { err = prev.Unmarshal(raw) }); pn {
			o.Impl, o.Fail = PanicV(), "panic: "+what
			return o
		}
		o.Tags = []string{fmt.Sprintf("audiolevel unmarshal len %d", len(raw))}
		if err != nil {
			o.Impl = errV(err)
			if len(raw) >= 1 {
				o.Fail = "rejected input of sufficient size"
			}
		} else {
			o.Impl = OkV(L(I(int64(prev.Level)), Bool(prev.Voice)))
			if len(raw) < 1 {
				o.Fail = "accepted short input"
			} else if prev.Level != raw[0]&0x7F || prev.Voice != (raw[0]&0x80 != 0) {
				o.Fail = "wrong fields"
			}
		}
	case 1703:
		seq := uint16(tokInt(toks[0]))
		b, err := rtp.TransportCCExtension{TransportSequence: seq}.Marshal()
		o.Impl = resBytes(b, err)
		o.Tags = []string{"tcc marshal"}
		if err != nil || len(b) != 2 || binary.BigEndian.Uint16(b) != seq {
			o.Fail = "wrong layout"
		}
	case 1704:
		prev := rtp.TransportCCExtension{TransportSequence: uint16(tokInt(toks[0]))}
		raw := tokBytes(toks[1])
		var err error
		if pn, what := catch(func() { err = prev.Unmarshal(raw) }); pn {
			o.Impl, o.Fail = PanicV(), "panic: "+what
			return o
		}
		o.Tags = []string{fmt.Sprintf("tcc unmarshal len %d", len(raw))}
		if err != nil {
			o.Impl = errV(err)
			if len(raw) >= 2 {
				o.Fail = "rejected input of sufficient size"
			}
		} else {
			o.Impl = OkV(I(int64(prev.TransportSequence)))
			if len(raw) < 2 || prev.TransportSequence != uint16(raw[0])<<8|uint16(raw[1]) {
				o.Fail = "wrong decode"
			}
		}
	case 1705:
		mn, mx := uint16(tokInt(toks[0])), uint16(tokInt(toks[1]))
		b, err := rtp.PlayoutDelayExtension{MinDelay: mn, MaxDelay: mx}.Marshal()
		o.Impl = resBytes(b, err)
		o.Tags = []string{"playout marshal"}
		if mn > 4095 || mx > 4095 {
			if err == nil {
				o.Fail = "out-of-range delay encoded"
			}
		} else {
			v := uint32(mn)<<12 | uint32(mx)
			if err != nil || len(b) != 3 || uint32(b[0])<<16|uint32(b[1])<<8|uint32(b[2]) != v {
				o.Fail = "wrong 12+12 bit layout"
			}
			var back rtp.PlayoutDelayExtension
			if e := back.Unmarshal(b); e != nil || back.MinDelay != mn || back.MaxDelay != mx {
				o.Fail = "unmarshal(marshal) differs"
			}
		}
	case 1706:
		prev := rtp.PlayoutDelayExtension{MinDelay: uint16(tokInt(toks[0])), MaxDelay: uint16(tokInt(toks[1]))}
		raw := tokBytes(toks[2])
		var err error
		if pn, what := catch(func() { err = prev.Unmarshal(raw) }); pn {
			o.Impl, o.Fail = PanicV(), "panic: "+what
			return o
		}
		o.Tags = []string{fmt.Sprintf("playout unmarshal len %d", len(raw))}
		if err != nil {
			o.Impl = errV(err)
			if len(raw) >= 3 {
				o.Fail = "rejected input of sufficient size"
			}
		} else {
			o.Impl = OkV(L(I(int64(prev.MinDelay)), I(int64(prev.MaxDelay))))
			if len(raw) < 3 {
				o.Fail = "accepted short input"
			} else {
				v := uint32(raw[0])<<16 | uint32(raw[1])<<8 | uint32(raw[2])
				if uint32(prev.MinDelay) != v>>12 || uint32(prev.MaxDelay) != v&0xFFF {
					o.Fail = "wrong decode"
				}
			}
		}
	case 1707:
		ts := tokU64(toks[0])
		b, err := rtp.AbsSendTimeExtension{Timestamp: ts}.Marshal()
		o.Impl = resBytes(b, err)
		o.Tags = []string{"abssend marshal"}
		if ts < 1<<24 {
			if err != nil || len(b) != 3 || uint64(b[0])<<16|uint64(b[1])<<8|uint64(b[2]) != ts {
				o.Fail = "wrong 24-bit layout"
			}
			var back rtp.AbsSendTimeExtension
			if e := back.Unmarshal(b); e != nil || back.Timestamp != ts {
				o.Fail = "unmarshal(marshal) differs"
			}
		}
	case 1708:
		prev := rtp.AbsSendTimeExtension{Timestamp: tokU64(toks[0])}
		raw := tokBytes(toks[1])
		var err error
		if pn, what := catch(func() { err = prev.Unmarshal(raw) }); pn {
			o.Impl, o.Fail = PanicV(), "panic: "+what
			return o
		}
		o.Tags = []string{fmt.Sprintf("abssend unmarshal len %d", len(raw))}
		if err != nil {
			o.Impl = errV(err)
			if len(raw) >= 3 {
				o.Fail = "rejected input of sufficient size"
			}
		} else {
			o.Impl = OkV(U(prev.Timestamp))
			if len(raw) < 3 || prev.Timestamp != uint64(raw[0])<<16|uint64(raw[1])<<8|uint64(raw[2]) {
				o.Fail = "wrong decode"
			}
		}
	case 1709:
		ts := tokU64(toks[0])
		off := tokOptI64(toks[1])
		b, err := rtp.AbsCaptureTimeExtension{Timestamp: ts, EstimatedCaptureClockOffset: off}.Marshal()
		o.Impl = resBytes(b, err)
		o.Tags = []string{fmt.Sprintf("abscapture marshal offset %v", off != nil)}
		want := make([]byte, 8, 16)
		binary.BigEndian.PutUint64(want, ts)
		if off != nil {
			want = binary.BigEndian.AppendUint64(want, uint64(*off))
		}
		if err != nil || !bytes.Equal(b, want) {
			o.Fail = "wrong layout"
		}
		var back rtp.AbsCaptureTimeExtension
		if e := back.Unmarshal(b); e != nil || back.Timestamp != ts || (off == nil) != (back.EstimatedCaptureClockOffset == nil) ||
			(off != nil && *off != *back.EstimatedCaptureClockOffset) {
			o.Fail = "unmarshal(marshal) differs"
		}
	case 1710:
		prev := rtp.AbsCaptureTimeExtension{Timestamp: tokU64(toks[0]), EstimatedCaptureClockOffset: tokOptI64(toks[1])}
		raw := tokBytes(toks[2])
		var err error
		if pn, what := catch(func() { err = prev.Unmarshal(raw) }); pn {
			o.Impl, o.Fail = PanicV(), "panic: "+what
			return o
		}
		o.Tags = []string{fmt.Sprintf("abscapture unmarshal len %d", len(raw))}
		if err != nil {
			o.Impl = errV(err)
			if len(raw) >= 8 {
				o.Fail = "rejected input of sufficient size"
			}
		} else {
			o.Impl = OkV(L(U(prev.Timestamp), optI64Val(prev.EstimatedCaptureClockOffset)))
			switch {
			case len(raw) < 8:
				o.Fail = "accepted short input"
			case prev.Timestamp != binary.BigEndian.Uint64(raw):
				o.Fail = "wrong timestamp"
			case len(raw) >= 16 && (prev.EstimatedCaptureClockOffset == nil || uint64(*prev.EstimatedCaptureClockOffset) != binary.BigEndian.Uint64(raw[8:])):
				o.Fail = "wrong offset"
			case len(raw) < 16 && prev.EstimatedCaptureClockOffset != nil:
				o.Fail = "offset reported for an input without one (stale receiver state)"
			}
		}
	default:
		panic("bad op")
	}
	return o
}

func abs64(x int64) int64 {
	if x < 0 {
		return -x
	}
	return x
}

func runC18(op int, toks []Tok) Outcome {
	var o Outcome
	o.Nontrivial = true
	switch op {
	case 1801:
		u := tokInt(toks[0])
		a := rtp.NewAbsCaptureTimeExtension(time.Unix(0, u))
		back := a.CaptureTime().UnixNano()
		o.Impl = L(U(a.Timestamp), I(back))
		o.Tags = []string{"capture"}
		if abs64(u-back) > 1 {
			o.Fail = fmt.Sprintf("capture time off by %d ns", u-back)
		}
	case 1802:
		send, delay := tokInt(toks[0]), tokInt(toks[1])
		e := rtp.NewAbsSendTimeExtension(time.Unix(0, send))
		est := e.Estimate(time.Unix(0, send+delay)).UnixNano()
		o.Impl = L(U(e.Timestamp), I(est))
		o.Tags = []string{"estimate"}
		// the 24-bit field as it travels on the wire
		b, _ := e.Marshal()
		var rx rtp.AbsSendTimeExtension
		_ = rx.Unmarshal(b)
		est2 := rx.Estimate(time.Unix(0, send+delay)).UnixNano()
		// ("estimate differs after the wire": the property applies Estimate "to the 24-bit abs-send-time of the send
		// instant"; the wire value is the one that is judged)
		if d := send - est; d < -3816 || d > 3816 {
			o.Fail = fmt.Sprintf("estimate (from the constructor's value) off by %d ns (resolution 3815 ns)", d)
		}
		if d := send - est2; d < -3816 || d > 3816 {
			// "within the 2^-18 s resolution of the field": either side of the send instant (the model's estimate is
			// never later than it - C18_estimate - but the property does not ask for that)
			o.Fail = fmt.Sprintf("estimate off by %d ns (resolution 3815 ns)", d)
		}
	case 1803:
		u, d := tokInt(toks[0]), tokInt(toks[1])
		a := rtp.NewAbsCaptureTimeExtensionWithCaptureClockOffset(time.Unix(0, u), time.Duration(d))
		back := a.EstimatedCaptureClockOffsetDuration()
		var bv *int64
		if back != nil {
			x := int64(*back)
			bv = &x
		}
		o.Impl = L(optI64Val(a.EstimatedCaptureClockOffset), optI64Val(bv))
		o.Tags = []string{"offset"}
		if back == nil || abs64(int64(*back)-d) > 1 || (d > 0 && *back < 0) || (d < 0 && *back > 0) {
			o.Fail = "offset not recovered within 1 ns"
		}
		// reading the offset is an accessor: a second read, and what the extension serialises to, are unchanged
		wireBefore, _ := rtp.NewAbsCaptureTimeExtensionWithCaptureClockOffset(time.Unix(0, u), time.Duration(d)).Marshal()
		again := a.EstimatedCaptureClockOffsetDuration()
		wireAfter, _ := a.Marshal()
		if back != nil && (again == nil || *again != *back) {
			o.Fail = fmt.Sprintf("a second read of the offset returns %v, the first returned %v", again, *back)
		} else if !bytes.Equal(wireBefore, wireAfter) {
			o.Fail = fmt.Sprintf("reading the offset changed what the extension serialises to: %x, before %x", wireAfter, wireBefore)
		}
	default:
		panic("bad op")
	}
	return o
}

const eraEndNanos = int64((1<<32)-2208988800) * 1000000000 // first instant of NTP era 1

func genInstant(c *RNG) int64 {
	switch c.Intn(5) {
	case 0:
		return int64(c.U64() % uint64(eraEndNanos))
	case 1: // around a 64 s wrap of the 24-bit field
		k := int64(c.U64() % uint64(eraEndNanos/64000000000))
		v := k*64000000000 + int64(c.Intn(8000)) - 4000
		if v < 0 {
			v = 0
		}
		return v
	case 2: // whole seconds +- 1 ns
		v := int64(c.U64()%uint64(eraEndNanos/1000000000))*1000000000 + int64(c.Intn(3)) - 1
		if v < 0 {
			v = 0
		}
		return v
	case 3:
		return eraEndNanos - 1 - int64(c.Intn(1000))
	}
	return int64(c.Intn(1000))
}

func init() {
	register(&Prop{
		ID:       "C17",
		Rule:     "complete domains where small (2x256 audio levels, all 2^16 transport sequence numbers in thorough / 4096 sampled in quick, playout-delay lattice incl. all values 4090-4100, sampled 24-bit send times and 64-bit capture times with and without offset), every input length 0..size+2 with receivers pre-loaded with other values; every case is non-trivial",
		Quick:    6000,
		Thorough: 400000,
		Gen: func(r *RNG, tier string, n int, emit func(op int, toks ...Tok)) {
			for level := 0; level < 256; level++ {
				emit(1701, TI(int64(level)), TI(0))
				emit(1701, TI(int64(level)), TI(1))
				emit(1702, TI(int64(r.Intn(256))), TI(int64(r.Intn(2))), TB([]byte{byte(level)}))
			}
			emit(1702, TI(5), TI(1), TB([]byte{}))
			emit(1702, TI(5), TI(1), TB([]byte{0x85, 0xFF, 0x00}))
			step := 16
			if tier == "thorough" {
				step = 1
			}
			for s := 0; s < 65536; s += step {
				emit(1703, TI(int64(s)))
			}
			for _, l := range []int{0, 1, 2, 3, 4} {
				emit(1704, TI(7), TB(r.Bytes(l)))
				emit(1706, TI(7), TI(9), TB(r.Bytes(l)))
				emit(1708, TI(7), TB(r.Bytes(l)))
			}
			for mn := 4090; mn <= 4100; mn++ {
				for mx := 4090; mx <= 4100; mx++ {
					emit(1705, TI(int64(mn)), TI(int64(mx)))
				}
			}
			emit(1705, TI(65535), TI(0))
			emit(1705, TI(0), TI(65535))
			// abs-capture-time offsets at the values a "no information" shortcut would treat specially:
			// a present offset is 16 bytes on the wire whatever its value, zero included
			for _, off := range []int64{0, 1, -1, 1 << 32, -(1 << 32), 1<<63 - 1, -(1 << 63)} {
				emit(1709, TU(0), TI(off))
				emit(1709, TU(1<<63), TI(off))
			}
			emit(1709, TU(0), TNil{})
			for l := 0; l <= 18; l++ {
				off := int64(-5)
				emit(1710, TU(99), TNil{}, TB(r.Bytes(l)))
				emit(1710, TU(99), TI(off), TB(r.Bytes(l)))
			}
			for i := 0; i < n; i++ {
				c := r.Fork(uint64(i))
				switch c.Intn(8) {
				case 0:
					emit(1704, TI(int64(c.Intn(65536))), TB(c.Bytes(2+c.Intn(3))))
				case 1:
					emit(1705, TI(int64(c.Intn(4096))), TI(int64(c.Intn(4096))))
				case 2:
					emit(1706, TI(int64(c.Intn(4096))), TI(int64(c.Intn(4096))), TB(c.Bytes(3+c.Intn(3))))
				case 3:
					ts := c.U64() & 0xFFFFFF
					if c.Intn(4) == 0 {
						ts = c.U64()
					}
					emit(1707, TU(ts))
				case 4:
					emit(1708, TU(c.U64()), TB(c.Bytes(3+c.Intn(3))))
				case 5:
					if c.Bool() {
						emit(1709, TU(c.U64()), TNil{})
					} else {
						emit(1709, TU(c.U64()), TI(int64(c.Pick(0, 1, -1)*c.Intn(2))+int64(c.U64())*int64(c.Intn(2))))
					}
				default:
					var prevOff Tok = TNil{}
					if c.Bool() {
						prevOff = TI(int64(c.U64()))
					}
					emit(1710, TU(c.U64()), prevOff, TB(c.Bytes(c.Pick(7, 8, 8, 9, 15, 16, 16, 17, 18))))
				}
			}
		},
		Run: runC17,
	})
	register(&Prop{
		ID:       "C18",
		Rule:     "instants in [1970, NTP era end 2036) concentrated on 64 s wrap points of the 24-bit field (+-4 us), whole seconds +-1 ns and both ends of the range; delays in [0, 64 s - 3815 ns) incl. 0-9 ns and the last 10 ns of the range; offsets in (-2^31 s, 2^31 s) incl. the extremes, +-1 ns and 0; every case is non-trivial",
		Quick:    6000,
		Thorough: 2000000,
		Gen: func(r *RNG, tier string, n int, emit func(op int, toks ...Tok)) {
			emit(1801, TI(0))
			emit(1801, TI(eraEndNanos-1))
			emit(1802, TI(eraEndNanos-1), TI(64000000000-3816)) // sent in the last nanosecond of the era, received 64 s later
			emit(1802, TI(eraEndNanos-1000), TI(5000))
			emit(1802, TI(0), TI(0))
			emit(1802, TI(63999999999), TI(64000000000-3815-1))
			emit(1803, TI(0), TI(0))
			emit(1803, TI(0), TI(1))
			emit(1803, TI(0), TI(-1))
			emit(1803, TI(0), TI((1<<31)*1000000000-1))
			emit(1803, TI(0), TI(-((1<<31)*1000000000-1)))
			for i := 0; i < n; i++ {
				c := r.Fork(uint64(i))
				switch c.Intn(3) {
				case 0:
					emit(1801, TI(genInstant(c)))
				case 1:
					send := genInstant(c)
					var delay int64
					// the largest whole number of nanoseconds below 64 s - 2^-18 s (63999996185.3 ns); itself admitted
					const maxDelay = 64000000000 - 3815
					switch c.Intn(4) {
					case 0:
						delay = int64(c.U64() % (maxDelay + 1))
					case 1:
						delay = maxDelay - int64(c.Intn(10))
					case 2:
						delay = int64(c.Intn(10))
					default:
						delay = int64(c.U64()%64)*1000000000 + int64(c.Intn(3))
						if delay > maxDelay {
							delay = maxDelay
						}
					}
					// the property restricts the SEND instant to the era; the packet may arrive up to 64 s after
					// its end (the receive instant's NTP seconds wrap, and the 64-second arithmetic does not care)
					emit(1802, TI(send), TI(delay))
				default:
					const lim = (1 << 31) * 1000000000
					var d int64
					switch c.Intn(4) {
					case 0:
						d = int64(c.U64()%lim) - int64(c.U64()%lim)
					case 1:
						d = lim - 1 - int64(c.Intn(5))
						if c.Bool() {
							d = -d
						}
					case 2:
						d = int64(c.Intn(5)) - 2
					default:
						d = (int64(c.U64()%(1<<31)))*1000000000 + int64(c.Intn(3)) - 1
						if c.Bool() {
							d = -d
						}
					}
					if d >= lim {
						d = lim - 1
					}
					if d <= -lim {
						d = -lim + 1
					}
					emit(1803, TI(genInstant(c)), TI(d))
				}
			}
		},
		Run: runC18,
	})
}
