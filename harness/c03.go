package main

import (
	"bytes"
	"fmt"

	"github.com/pion/rtp"
)

// C03: RTP decoding conforms to RFC 3550/8285 and re-encoding is stable.
// opcodes: 301 wire-description            the RFC encoder (Go generator here, Spec/Rfc3550.v in the model)
//          101 [wire bytes]                 Packet.Unmarshal (shared with C02)
//          302/303 xblock [ids]             one-byte / two-byte standalone views on an exact block
//          304 xblock                       raw view

type wItem struct {
	pad      bool
	id       int
	val      []byte
	reserved bool // one-byte id 15 with an arbitrary length nibble
	nibble   int
}

type wireD struct {
	version  int
	marker   bool
	pt       int
	seq      uint16
	ts, ssrc uint32
	csrc     []uint32
	kind     int // 0 none, 1 one-byte, 2 two-byte, 3 legacy
	items    []wItem
	profile  int
	appbits  int // kind 2: the low four bits of the profile 0x100X
	body     []byte
	payload  []byte
	padfill  []byte
	pad      bool
}

func (w wireD) blockBody() []byte {
	var b []byte
	switch w.kind {
	case 1:
		for _, it := range w.items {
			switch {
			case it.pad:
				b = append(b, 0)
			case it.reserved:
				b = append(b, 0xF0|byte(it.nibble))
			default:
				b = append(b, byte(it.id<<4|(len(it.val)-1)))
				b = append(b, it.val...)
			}
		}
	case 2:
		for _, it := range w.items {
			if it.pad {
				b = append(b, 0)
			} else {
				b = append(b, byte(it.id), byte(len(it.val)))
				b = append(b, it.val...)
			}
		}
	case 3:
		b = w.body
	}
	return b
}

func (w wireD) block() []byte {
	if w.kind == 0 {
		return nil
	}
	prof := map[int]int{1: 0xBEDE, 2: 0x1000 | w.appbits, 3: w.profile}[w.kind]
	body := w.blockBody()
	return append([]byte{byte(prof >> 8), byte(prof), byte(len(body) / 4 >> 8), byte(len(body) / 4)}, body...)
}

// RFC 3550 section 5.1 / 5.3.1, written from the figures
func (w wireD) encode() []byte {
	b0 := byte(w.version<<6) | byte(len(w.csrc))
	if w.pad {
		b0 |= 0x20
	}
	if w.kind != 0 {
		b0 |= 0x10
	}
	b1 := byte(w.pt)
	if w.marker {
		b1 |= 0x80
	}
	out := []byte{b0, b1, byte(w.seq >> 8), byte(w.seq), byte(w.ts >> 24), byte(w.ts >> 16), byte(w.ts >> 8), byte(w.ts),
		byte(w.ssrc >> 24), byte(w.ssrc >> 16), byte(w.ssrc >> 8), byte(w.ssrc)}
	for _, c := range w.csrc {
		out = append(out, byte(c>>24), byte(c>>16), byte(c>>8), byte(c))
	}
	out = append(out, w.block()...)
	out = append(out, w.payload...)
	if w.pad {
		out = append(out, w.padfill...)
		out = append(out, byte(len(w.padfill)+1))
	}
	return out
}

func (w wireD) tok() Tok {
	cs := TList{}
	for _, c := range w.csrc {
		cs = append(cs, TI(int64(c)))
	}
	var ext Tok
	switch w.kind {
	case 0:
		ext = TList{TI(0)}
	case 1, 2:
		its := TList{}
		for _, it := range w.items {
			switch {
			case it.pad:
				its = append(its, TList{TI(0)})
			case it.reserved:
				its = append(its, TList{TI(2), TI(int64(it.nibble))})
			default:
				its = append(its, TList{TI(1), TI(int64(it.id)), TBytes(it.val)})
			}
		}
		ext = TList{TI(int64(w.kind)), its}
		if w.kind == 2 {
			ext = TList{TI(2), its, TI(int64(w.appbits))}
		}
	default:
		ext = TList{TI(3), TI(int64(w.profile)), TBytes(w.body)}
	}
	return TList{TI(int64(w.version)), TI(b2i(w.marker)), TI(int64(w.pt)), TI(int64(w.seq)), TI(int64(w.ts)), TI(int64(w.ssrc)), cs, ext,
		TBytes(w.payload), TBytes(w.padfill), TI(b2i(w.pad))}
}

func (w wireD) hasReserved() bool {
	for _, it := range w.items {
		if it.reserved {
			return true
		}
	}
	return false
}

func genWire(c *RNG, allowReserved bool) wireD {
	w := wireD{version: c.Intn(4), marker: c.Bool(), pt: c.Intn(128), seq: uint16(c.U64()), ts: uint32(c.U64()), ssrc: uint32(c.U64())}
	w.csrc = u32s(c, c.Pick(0, 0, 1, 2, 15, c.Intn(16)))
	w.kind = c.Intn(4)
	pads := func() {
		for c.Intn(3) == 0 {
			w.items = append(w.items, wItem{pad: true})
		}
	}
	switch w.kind {
	case 1:
		ids := perm(c, 14)
		for i, n := 0, c.Intn(6); i < n; i++ {
			pads()
			w.items = append(w.items, wItem{id: ids[i] + 1, val: c.Bytes(c.Pick(1, 1, 2, 3, 16, 1+c.Intn(16)))})
		}
		if allowReserved && c.Intn(4) == 0 {
			pads()
			w.items = append(w.items, wItem{reserved: true, nibble: c.Intn(16)})
			for i, n := 0, c.Intn(6); i < n; i++ { // bytes after the reserved id are not interpreted
				w.items = append(w.items, wItem{pad: true})
			}
		}
	case 2:
		w.appbits = int(twoByteProfile(c) & 0xF)
		ids := perm(c, 255)
		for i, n := 0, c.Intn(6); i < n; i++ {
			pads()
			w.items = append(w.items, wItem{id: ids[i] + 1, val: c.Bytes(c.Pick(0, 0, 1, 2, 17, 255, c.Intn(40)))})
		}
	case 3:
		w.profile = int(legacyProfile(c))
		w.body = c.Bytes(4 * c.Pick(0, 1, 2, 5))
	}
	if w.kind == 1 || w.kind == 2 {
		pads()
		for len(w.blockBody())%4 != 0 {
			w.items = append(w.items, wItem{pad: true})
		}
		if c.Intn(6) == 0 {
			for i := 0; i < 4; i++ {
				w.items = append(w.items, wItem{pad: true})
			}
		}
	}
	w.payload = c.Bytes(c.Pick(0, 0, 1, 3, c.Intn(30)))
	if c.Intn(3) == 0 {
		w.pad = true
		w.padfill = c.Bytes(c.Pick(0, 0, 1, 3, 254, c.Intn(20)))
	}
	return w
}

func wireFromTok(t Tok) wireD {
	l := tokList(t)
	w := wireD{version: int(tokInt(l[0])), marker: tokInt(l[1]) != 0, pt: int(tokInt(l[2])), seq: uint16(tokInt(l[3])),
		ts: uint32(tokInt(l[4])), ssrc: uint32(tokInt(l[5])), payload: tokBytes(l[8]), padfill: tokBytes(l[9]), pad: tokInt(l[10]) != 0}
	for _, c := range tokList(l[6]) {
		w.csrc = append(w.csrc, uint32(tokInt(c)))
	}
	e := tokList(l[7])
	w.kind = int(tokInt(e[0]))
	switch w.kind {
	case 1, 2:
		if w.kind == 2 && len(e) > 2 { // cases recorded before D31 have no appbits token
			w.appbits = int(tokInt(e[2]))
		}
		for _, it := range tokList(e[1]) {
			il := tokList(it)
			switch tokInt(il[0]) {
			case 0:
				w.items = append(w.items, wItem{pad: true})
			case 2:
				w.items = append(w.items, wItem{reserved: true, nibble: int(tokInt(il[1]))})
			default:
				w.items = append(w.items, wItem{id: int(tokInt(il[1])), val: tokBytes(il[2])})
			}
		}
	case 3:
		w.profile, w.body = int(tokInt(e[1])), tokBytes(e[2])
	}
	return w
}

// op 305: wiredesc xwire - a wire image described by the RFC 3550/8285 grammar.  The runner encodes
// the description with the Go encoder above (the model with Spec/Rfc3550.v), decodes it with the
// implementation and compares every field with the description; then the re-encoding clause.
// A failure on a wire with a reserved id 15 is the known finding only if the decode is exactly what
// that finding produces (payload starting right behind the id byte, everything else right).
func runWireDecode(w wireD, given []byte) Outcome {
	wire := w.encode()
	o := runUnmarshalSeq(true, [][]byte{wire})
	o.Impl = L(B(wire), o.Impl)
	o.Nontrivial = true
	if !bytes.Equal(wire, given) {
		o.Fail = "harness: the wire bytes of the case differ from the encoding of its description"
		return o
	}
	if o.Fail != "" {
		return o
	}
	var p rtp.Packet
	if err := p.Unmarshal(append([]byte{}, wire...)); err != nil {
		o.Fail = "well-formed wire image rejected: " + err.Error()
		return o
	}
	var want []wItem
	resOff := -1 // offset of the byte behind the reserved id, if any
	off := 12 + 4*len(w.csrc) + 4
	for _, it := range w.items {
		if it.reserved {
			resOff = off + 1
			break
		}
		switch {
		case it.pad:
			off++
		case w.kind == 1:
			off += 1 + len(it.val)
		default:
			off += 2 + len(it.val)
		}
		if !it.pad {
			want = append(want, it)
		}
	}
	fieldsOK := func(payload []byte) string {
		ids := p.GetExtensionIDs()
		switch {
		case p.Version != uint8(w.version) || p.Marker != w.marker || p.PayloadType != uint8(w.pt) || p.SequenceNumber != w.seq ||
			p.Timestamp != w.ts || p.SSRC != w.ssrc || !u32Equal(p.CSRC, w.csrc) || p.Padding != w.pad || p.Extension != (w.kind != 0):
			return "fixed fields decoded wrongly"
		case !bytes.Equal(p.Payload, payload):
			return "payload does not start right after the extension block"
		case w.pad && int(p.PaddingSize) != len(w.padfill)+1:
			return "padding size decoded wrongly"
		case w.kind == 3 && (len(ids) != 1 || ids[0] != 0 || !bytes.Equal(p.GetExtension(0), w.body)):
			return "legacy block decoded wrongly"
		case w.kind == 1 || w.kind == 2:
			if len(ids) != len(want) {
				return fmt.Sprintf("%d elements decoded, %d encoded", len(ids), len(want))
			}
			for k, it := range want {
				if int(ids[k]) != it.id || !bytes.Equal(p.GetExtension(ids[k]), it.val) {
					return fmt.Sprintf("element %d decoded wrongly", k)
				}
			}
		}
		return ""
	}
	if why := fieldsOK(w.payload); why != "" {
		o.Fail = why
		if resOff >= 0 {
			end := len(wire)
			if w.pad {
				end -= len(w.padfill) + 1
			}
			if resOff <= end && fieldsOK(wire[resOff:end]) == "" {
				o.Known = "KF-C03-reserved15"
			}
		}
	}
	return o
}

func init() {
	run := func(op int, toks []Tok) Outcome {
		var o Outcome
		switch op {
		case 101:
			var bufs [][]byte
			for _, t := range tokList(toks[0]) {
				bufs = append(bufs, tokBytes(t))
			}
			return runUnmarshalSeq(true, bufs)
		case 301:
			// the "implementation" of the RFC encoder is the Go generator; the model's is Spec/Rfc3550.v
			w := wireFromTok(toks[0])
			o.Impl, o.Nontrivial = B(w.encode()), true
			return o
		case 305:
			return runWireDecode(wireFromTok(toks[0]), tokBytes(toks[1]))
		case 302, 303:
			buf := tokBytes(toks[0])
			var ids []uint8
			for _, t := range tokList(toks[1]) {
				ids = append(ids, uint8(tokInt(t)))
			}
			var ext rtp.HeaderExtension = &rtp.OneByteHeaderExtension{}
			if op == 303 {
				ext = &rtp.TwoByteHeaderExtension{}
			}
			pn, what := catch(func() {
				n, err := ext.Unmarshal(buf)
				if err != nil {
					o.Impl = errV(err)
					o.Fail = fmt.Sprintf("the view refused the well-formed block %x: %v", buf, err)
					return
				}
				got := ext.GetIDs()
				idv := VList{}
				for _, x := range got {
					idv = append(idv, I(int64(x)))
				}
				vals := VList{}
				for _, id := range ids {
					v := ext.Get(id)
					if v == nil {
						vals = append(vals, OkV(T(1, Unit)))
					} else {
						vals = append(vals, OkV(T(0, B(v))))
					}
				}
				m, _ := ext.Marshal()
				o.Impl = OkV(L(OkV(idv), vals, B(m), I(int64(ext.MarshalSize()))))
				o.Nontrivial = true
				dst := bytes.Repeat([]byte{0xEE}, len(buf)+3)
				k, merr := ext.MarshalTo(dst)
				if n != len(buf) || !bytes.Equal(m, buf) || merr != nil || k != len(buf) || !bytes.Equal(dst[:k], buf) || ext.MarshalSize() != len(buf) {
					o.Fail = "the view does not re-serialise the block byte-identically"
				}
				// the ids and values of the block, walked here from the RFC 8285 layout
				wantIDs, wantVals := walkRfc8285Block(buf, op == 303)
				if len(got) != len(wantIDs) {
					o.Fail = fmt.Sprintf("view GetIDs = %v, the block holds %v", got, wantIDs)
				} else {
					for i := range got {
						if got[i] != wantIDs[i] {
							o.Fail = fmt.Sprintf("view GetIDs = %v, the block holds %v", got, wantIDs)
						}
					}
				}
				for id := 0; id < 256; id++ {
					var want []byte
					found := false
					for i, x := range wantIDs {
						if int(x) == id {
							want, found = wantVals[i], true
							break
						}
					}
					if op == 302 && id > 14 || op == 303 && id == 0 {
						continue
					}
					v := ext.Get(uint8(id))
					if found != (v != nil) && !(found && len(want) == 0) || found && !bytes.Equal(v, want) {
						o.Fail = fmt.Sprintf("view Get(%d) = %x, the block holds %x (present=%v)", id, v, want, found)
					}
				}
			})
			if pn {
				o.Impl, o.Fail = PanicV(), "panic on a well-formed block: "+what
			}
			return o
		case 304:
			buf := tokBytes(toks[0])
			ext := &rtp.RawExtension{}
			pn, what := catch(func() {
				_, err := ext.Unmarshal(buf)
				if err != nil {
					o.Impl = errV(err)
					return
				}
				m, _ := ext.Marshal()
				v := ext.Get(0)
				o.Impl = OkV(L(L(I(0)), OkV(T(0, B(v))), B(m), I(int64(ext.MarshalSize()))))
				o.Nontrivial = true
				if ids := ext.GetIDs(); len(ids) != 1 || ids[0] != 0 || !bytes.Equal(m, buf) {
					o.Fail = "raw view: ids or re-serialisation wrong"
				}
				// "decode the same well-formed block to the same ids and values": the value Header.Unmarshal reports
				// for this block (as the extension of an otherwise empty packet) is the block without its four-byte
				// profile/length header
				var hdr rtp.Header
				pkt := append([]byte{0x90, 96, 0, 1, 0, 0, 0, 2, 0, 0, 0, 3}, buf...)
				if _, herr := hdr.Unmarshal(pkt); herr == nil && o.Fail == "" {
					if hv := hdr.GetExtension(0); !bytes.Equal(v, hv) {
						o.Fail = fmt.Sprintf("raw view Get(0) = %x, Header.GetExtension(0) of the same block = %x", v, hv)
						if bytes.Equal(v, buf) && len(buf) >= 4 && bytes.Equal(hv, buf[4:]) {
							o.Known = "KF-C03-raw-view-value"
						}
					}
				}
			})
			if pn {
				o.Impl, o.Fail = PanicV(), "panic: "+what
			}
			return o
		}
		panic("bad op")
	}
	register(&Prop{
		ID:       "C03",
		Rule:     "wire images generated from the RFC 3550/8285 grammar by a Go encoder that shares no code with the library (0-15 CSRCs, one-byte / two-byte blocks with padding bytes before, between and after elements, zero-length two-byte elements, legacy blocks, reserved id 15, RTP padding with random fill) and checked three ways: Spec/Rfc3550.v encoder = Go generator bytes; implementation decode = what the wire was built from; re-marshal decodes equal and is byte-identical for canonical inputs; accepted bit-flip mutations for re-encode stability; standalone views on the exact blocks; non-trivial = every case",
		Quick:    4000,
		Thorough: 200000,
		Gen: func(r *RNG, tier string, n int, emit func(op int, toks ...Tok)) {
			{
				// the known finding as a fixed witness (printed on every run, whatever the seed): a one-byte
				// block with the reserved id 15 followed by more bytes of the block
				kf := wireD{version: 2, pt: 96, seq: 7, ts: 9, ssrc: 5, kind: 1, payload: []byte{0xAA, 0xBB},
					items: []wItem{{id: 1, val: []byte{1, 2}}, {reserved: true, nibble: 3}, {pad: true}, {pad: true}, {pad: true}, {pad: true}}}
				emit(305, kf.tok(), TBytes(kf.encode()))
				// the second known finding as a fixed witness: the raw view of a legacy block of one word
				emit(304, TBytes([]byte{0x12, 0x34, 0x00, 0x01, 0xde, 0xad, 0xbe, 0xef}))
			}
			{
				// a maximal two-byte block (65535 words) packed with elements, whose last element starts in
				// the last two bytes of the block and runs 255 bytes past it: if that is accepted, the
				// decoded elements no longer fit a 16-bit word count and the re-encoding clause is at stake
				c := r.Fork(31)
				b := []byte{0x90, 96, 0, 1, 0, 0, 0, 2, 0, 0, 0, 3, 0x10, 0x00, 0xFF, 0xFF}
				for k := 0; k < 1019; k++ {
					b = append(append(b, 1, 255), c.Bytes(255)...)
				}
				b = append(append(b, 2, 253), c.Bytes(253)...)
				b = append(append(b, 3, 255), c.Bytes(255)...) // header inside the block, value behind it
				b = append(b, 0xAA, 0xBB)
				emit(101, TList{TBytes(b)})
			}
			{
				// accepted inputs whose extension block is 2^14 words and more (the 16-bit length field counts
				// words; the byte count does not fit 16 bits): legacy blocks of 0x3FFF / 0x4000 / 0x4001 / 0xFFFF
				// words, a one-byte block of 4096 sixteen-byte elements, a two-byte block of 255 x 255 bytes
				c := r.Fork(32)
				fixed := []byte{0x90, 96, 0, 1, 0, 0, 0, 2, 0, 0, 0, 3}
				for _, words := range []int{0x3FFF, 0x4000, 0x4001, 0xFFFF} {
					b := append(append([]byte{}, fixed...), 0x12, 0x34, byte(words>>8), byte(words))
					b = append(append(b, c.Bytes(4*words)...), 0xAA, 0xBB)
					emit(101, TList{TBytes(b)})
				}
				one := append(append([]byte{}, fixed...), 0xBE, 0xDE, 0x44, 0x00) // 4096 x 17 bytes = 0x4400 words
				for k := 0; k < 4096; k++ {
					one = append(append(one, byte(1+k%14)<<4|15), c.Bytes(16)...)
				}
				emit(101, TList{TBytes(append(one, 0xAA))})
				two := append(append([]byte{}, fixed...), 0x10, 0x05, 0x40, 0x00) // 255 x 257 bytes + 1 pad = 0x4000 words
				for id := 1; id <= 255; id++ {
					two = append(append(two, byte(id), 255), c.Bytes(255)...)
				}
				emit(101, TList{TBytes(append(two, 0, 0xAA, 0xBB, 0xCC))})
			}
			// the one-byte view on blocks that go on behind the reserved id 15 (RFC 8285 4.2: processing ends there):
			// bytes that look like further elements, one of them reaching past the block
			emit(302, TBytes([]byte{0xBE, 0xDE, 0, 1, 0xF0, 0x00, 0x10, 0xAA}), TList{TI(1), TI(2)})
			emit(302, TBytes([]byte{0xBE, 0xDE, 0, 2, 0x10, 0xAA, 0xF0, 0x00, 0x2F, 0xBB, 0x00, 0x00}), TList{TI(1), TI(2), TI(11)})
			emit(302, TBytes([]byte{0xBE, 0xDE, 0, 2, 0x31, 0xA1, 0xA2, 0xF7, 0x31, 0xB1, 0xB2, 0x4F}), TList{TI(3), TI(4)})
			var hist [][]byte // the last well-formed wires: decoded in a row into one receiver (op 101 list)
			for i := 0; i < n; i++ {
				c := r.Fork(uint64(i))
				w := genWire(c, true)
				wire := w.encode()
				if !w.hasReserved() {
					emit(301, w.tok())
				}
				// decode, compare with the description, re-encode: all in the runner of op 305
				emit(305, w.tok(), TBytes(wire))
				// the same wire as the last of a run of well-formed wires decoded into ONE receiver
				// (CSRC counts, extension kinds and padding vary from wire to wire)
				hist = append(hist, wire)
				if len(hist) > 4 {
					hist = hist[1:]
				}
				if len(hist) >= 3 && c.Intn(2) == 0 {
					seq := TList{}
					for _, hw := range hist[len(hist)-3+c.Intn(2)*0:] {
						seq = append(seq, TBytes(hw))
					}
					emit(101, seq)
				}
				// accepted mutations: re-encode stability only
				if c.Intn(3) == 0 {
					m := append([]byte{}, wire...)
					m[c.Intn(len(m))] ^= 1 << uint(c.Intn(8))
					emit(101, TList{TBytes(m)})
				}
				// standalone views on the exact block
				// (a one-byte block with the reserved id 15 included: the views end their walk there, as the decoder does)
				if blk := w.block(); blk != nil {
					ids := TList{}
					for _, it := range w.items {
						if !it.pad && !it.reserved {
							ids = append(ids, TI(int64(it.id)))
						}
					}
					ids = append(ids, TI(int64(c.Intn(16))))
					switch w.kind {
					case 1:
						emit(302, TBytes(blk), ids)
					case 2:
						emit(303, TBytes(blk), ids)
					default:
						emit(304, TBytes(blk))
					}
				}
			}
		},
		Run: run,
	})
}

func u32Equal(a, b []uint32) bool {
	if len(a) != len(b) {
		return false
	}
	for i := range a {
		if a[i] != b[i] {
			return false
		}
	}
	return true
}

// walkRfc8285Block lists the elements of an exact extension block (4-byte header + body) in order.
func walkRfc8285Block(blk []byte, twoByte bool) (ids []uint8, vals [][]byte) {
	body := blk[4:]
	for i := 0; i < len(body); {
		if body[i] == 0 {
			i++
			continue
		}
		var id, l int
		if twoByte {
			if i+1 >= len(body) {
				break
			}
			id, l = int(body[i]), int(body[i+1])
			i += 2
		} else {
			id, l = int(body[i]>>4), int(body[i]&0xF)+1
			i++
			if id == 15 {
				break
			}
		}
		if i+l > len(body) {
			break
		}
		ids = append(ids, uint8(id))
		vals = append(vals, body[i:i+l])
		i += l
	}
	return ids, vals
}
