package main

import (
	"bytes"
	"errors"
	"fmt"
	"io"
	"unsafe"

	"github.com/pion/rtp"
)

type extD struct {
	id  uint8
	val []byte
}

// hdrDesc is an abstract description of a header from which both the implementation value
// (through the public API) and the model value (through the case tokens) are built.
type hdrDesc struct {
	version          int
	padding, ext, mk bool
	pt               int
	seq              uint16
	ts, ssrc         uint32
	csrc             []uint32
	profile          uint16
	exts             []extD
}

func b2i(b bool) int64 {
	if b {
		return 1
	}
	return 0
}

func (d hdrDesc) tok() Tok {
	cs := TList{}
	for _, c := range d.csrc {
		cs = append(cs, TI(int64(c)))
	}
	es := TList{}
	for _, e := range d.exts {
		es = append(es, TList{TI(int64(e.id)), TBytes(e.val)})
	}
	return TList{TI(int64(d.version)), TI(b2i(d.padding)), TI(b2i(d.ext)), TI(b2i(d.mk)), TI(int64(d.pt)),
		TI(int64(d.seq)), TI(int64(d.ts)), TI(int64(d.ssrc)), cs, TI(int64(d.profile)), es}
}

func hdrDescFromTok(t Tok) hdrDesc {
	l := tokList(t)
	d := hdrDesc{version: int(tokInt(l[0])), padding: tokInt(l[1]) != 0, ext: tokInt(l[2]) != 0, mk: tokInt(l[3]) != 0,
		pt: int(tokInt(l[4])), seq: uint16(tokInt(l[5])), ts: uint32(tokInt(l[6])), ssrc: uint32(tokInt(l[7])), profile: uint16(tokInt(l[9]))}
	for _, c := range tokList(l[8]) {
		d.csrc = append(d.csrc, uint32(tokInt(c)))
	}
	for _, e := range tokList(l[10]) {
		el := tokList(e)
		d.exts = append(d.exts, extD{uint8(tokInt(el[0])), tokBytes(el[1])})
	}
	return d
}

// build constructs the header through the public API.  Extension elements can only be
// installed with SetExtension; an element the API refuses makes the case unbuildable.
func (d hdrDesc) build() (rtp.Header, error) {
	h := rtp.Header{Version: uint8(d.version), Padding: d.padding, Marker: d.mk, PayloadType: uint8(d.pt),
		SequenceNumber: d.seq, Timestamp: d.ts, SSRC: d.ssrc}
	h.CSRC = append([]uint32{}, d.csrc...)
	if d.ext {
		h.Extension = true
		h.ExtensionProfile = d.profile
		for _, e := range d.exts {
			if err := h.SetExtension(e.id, e.val); err != nil {
				return h, err
			}
		}
	} else {
		h.ExtensionProfile = d.profile
	}
	return h, nil
}

func vHeader(h *rtp.Header) Val {
	cs := VList{}
	for _, c := range h.CSRC {
		cs = append(cs, I(int64(c)))
	}
	es := VList{}
	for _, id := range h.GetExtensionIDs() {
		v := h.GetExtension(id)
		if v == nil {
			v = []byte{}
		}
		es = append(es, L(I(int64(id)), B(v)))
	}
	return L(I(int64(h.Version)), Bool(h.Padding), Bool(h.Extension), Bool(h.Marker), I(int64(h.PayloadType)),
		I(int64(h.SequenceNumber)), I(int64(h.Timestamp)), I(int64(h.SSRC)), cs, I(int64(h.ExtensionProfile)), es,
		I(int64(len(h.Extensions))))
}

func vPacket(p *rtp.Packet) Val {
	pl := p.Payload
	if pl == nil {
		pl = []byte{}
	}
	return L(vHeader(&p.Header), B(pl), I(int64(p.PaddingSize)))
}

// errClass maps an error to the class the model can predict: exported sentinels keep their
// identity, everything else is "an error".
func errClass(err error) int {
	switch {
	case errors.Is(err, io.ErrShortBuffer):
		return 3
	}
	return 1
}

func errV(err error) Val { return ErrV(errClass(err)) }

// offsetIn returns the offset of s inside buf, or -1 if s is empty or not a window of buf.
func offsetIn(s, buf []byte) int {
	if len(s) == 0 || len(buf) == 0 {
		return -1
	}
	s0 := uintptr(unsafe.Pointer(unsafe.SliceData(s)))
	b0 := uintptr(unsafe.Pointer(unsafe.SliceData(buf)))
	if s0 < b0 || s0+uintptr(len(s)) > b0+uintptr(len(buf)) {
		return -1
	}
	return int(s0 - b0)
}

func catch(f func()) (panicked bool, what string) {
	defer func() {
		if e := recover(); e != nil {
			panicked, what = true, fmt.Sprint(e)
		}
	}()
	f()
	return
}

func hdrEquivalent(a, b *rtp.Header) bool {
	if a.Version != b.Version || a.Padding != b.Padding || a.Extension != b.Extension || a.Marker != b.Marker ||
		a.PayloadType != b.PayloadType || a.SequenceNumber != b.SequenceNumber || a.Timestamp != b.Timestamp ||
		a.SSRC != b.SSRC || len(a.CSRC) != len(b.CSRC) || len(a.Extensions) != len(b.Extensions) {
		return false
	}
	for i := range a.CSRC {
		if a.CSRC[i] != b.CSRC[i] {
			return false
		}
	}
	// the profile is a field of the result like any other: a header without extension reports none
	if a.ExtensionProfile != b.ExtensionProfile {
		return false
	}
	if !a.Extension {
		return true
	}
	ia, ib := a.GetExtensionIDs(), b.GetExtensionIDs()
	if len(ia) != len(ib) {
		return false
	}
	for i := range ia {
		if ia[i] != ib[i] || !bytes.Equal(a.GetExtension(ia[i]), b.GetExtension(ib[i])) {
			return false
		}
	}
	return true
}

// isTwoByte: RFC 8285 4.3 - the two-byte form is announced by 0x100 followed by four application bits
// ("appbits"), which a receiver ignores: 0x1000 .. 0x100F
func isTwoByte(profile uint16) bool { return profile&0xFFF0 == 0x1000 }

// twoByteProfile draws a two-byte profile: 0x1000 in three quarters of the cases, otherwise with appbits set
func twoByteProfile(c *RNG) uint16 {
	if c.Intn(4) == 0 {
		return 0x1000 | uint16(c.Pick(1, 2, 5, 8, 15, 1+c.Intn(15)))
	}
	return 0x1000
}

// legacyProfile draws an extension profile that is neither 0xBEDE nor one of 0x1000..0x100F, with half of
// the mass on the neighbours of those values (same upper bits, same lower bits, +-1): a decoder that
// masks or rounds the profile too generously treats one of them as an RFC 8285 form.
func legacyProfile(c *RNG) uint16 {
	if c.Bool() {
		return uint16(c.Pick(0x1010, 0x1011, 0x101F, 0x0FFF, 0x0FF0, 0x1100, 0x2000, 0x9000, 0x0000, 0x0001, 0xBEDF, 0xBEDD, 0xBED0, 0xBEEE, 0xBEDE^0x8000, 0xDEBE, 0x0010, 0xFFFF))
	}
	for {
		if v := uint16(c.Intn(65536)); v != 0xBEDE && !isTwoByte(v) {
			return v
		}
	}
}
