package main

// splitmix64: every random choice of a run derives from one 64-bit state, so a case is
// reproducible from (seed, index).
type RNG struct{ s uint64 }

func NewRNG(seed uint64) *RNG { return &RNG{seed} }

func (r *RNG) U64() uint64 {
	r.s += 0x9E3779B97F4A7C15
	z := r.s
	z = (z ^ (z >> 30)) * 0xBF58476D1CE4E5B9
	z = (z ^ (z >> 27)) * 0x94D049BB133111EB
	return z ^ (z >> 31)
}

// Intn returns a value in [0,n); n > 0.
func (r *RNG) Intn(n int) int { return int(r.U64() % uint64(n)) }

func (r *RNG) Bool() bool { return r.U64()&1 == 1 }

// Pick returns one of the given ints.
func (r *RNG) Pick(xs ...int) int { return xs[r.Intn(len(xs))] }

func (r *RNG) Bytes(n int) []byte {
	b := make([]byte, n)
	for i := 0; i < n; i += 8 {
		v := r.U64()
		for j := 0; j < 8 && i+j < n; j++ {
			b[i+j] = byte(v >> (8 * uint(j)))
		}
	}
	return b
}

// Fork derives an independent generator for case number i.
func (r *RNG) Fork(i uint64) *RNG {
	f := &RNG{r.s ^ (i+1)*0xD6E8FEB86659FD93}
	f.U64()
	return f
}
