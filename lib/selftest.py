#!/usr/bin/env python3
"""Mutation self-test (development aid, not a registered check).

  lib/selftest.py revert-fixes [ID ...]     every `fixed` entry of known_findings.json: revert that one
                                            commit in a scratch worktree and expect the property's check
                                            to report a VIOLATION with a failing input
  lib/selftest.py seeded [ID ...]           every /verif/seeded/<id>/patch.diff: apply it to a scratch
                                            worktree and run the checks named in its meta.json

Scratch worktrees live under /tmp/verif-selftest and are removed as soon as the run that used
them ends.  Evidence and replays of these runs go to build/selftest/<id>/ (VERIF_OUT), never to
/verif/evidence.
"""
import concurrent.futures, json, os, shutil, subprocess, sys

ROOT = os.path.dirname(os.path.dirname(os.path.abspath(__file__)))
SCR = "/tmp/verif-selftest"


def sh(cmd, **kw):
    return subprocess.run(cmd, shell=True, stdout=subprocess.PIPE, stderr=subprocess.STDOUT, text=True, **kw)


def with_tree(name, prepare, props, tier="quick"):
    wt = os.path.join(SCR, name)
    sh("git -C /repo worktree remove --force %s" % wt)
    shutil.rmtree(wt, ignore_errors=True)
    os.makedirs(SCR, exist_ok=True)
    r = sh("git -C /repo worktree add --detach %s HEAD" % wt)
    if r.returncode:
        return {"name": name, "error": r.stdout}
    res = {"name": name, "checks": {}}
    try:
        p = prepare(wt)
        if p.returncode:
            res["error"] = "prepare failed: " + p.stdout[-2000:]
            return res
        out = os.path.join(ROOT, "build", "selftest", name)
        shutil.rmtree(out, ignore_errors=True)
        for prop in props:
            env = dict(os.environ, VERIF_REPO=wt, VERIF_OUT=out)
            c = sh("./check %s --tier %s" % (prop, tier), cwd=ROOT, env=env)
            lines = [l for l in c.stdout.split("\n") if l.startswith(("VIOLATION", "KNOWN-FINDING", "BUILD-FAILED", "HARNESS-FAILED"))]
            res["checks"][prop] = {"exit": c.returncode, "lines": lines}
            for l in lines:
                if l.startswith("VIOLATION") and "replay=" in l:
                    rp = l.split("replay=")[1].split()[0]
                    try:
                        d = json.load(open(rp))
                        res["checks"][prop]["replay"] = {"kind": d["kind"], "cases": d["cases"], "why": d["detail"].get("why", d["detail"].get("broken"))}
                    except Exception as e:  # noqa
                        res["checks"][prop]["replay"] = {"error": str(e)}
    finally:
        sh("git -C /repo worktree remove --force %s" % wt)
        shutil.rmtree(wt, ignore_errors=True)
        alt = os.path.join(ROOT, "build", "alt")
        import hashlib
        shutil.rmtree(os.path.join(alt, hashlib.sha1(wt.encode()).hexdigest()[:12]), ignore_errors=True)
    return res


def merge_results(name, summary):
    path = os.path.join(ROOT, "build", "selftest", name)
    old = {e["id"]: e for e in json.load(open(path))} if os.path.exists(path) else {}
    for e in summary:
        old[e["id"]] = e
    json.dump(sorted(old.values(), key=lambda e: e["id"]), open(path, "w"), indent=1)


def revert_fixes(ids):
    kf = json.load(open(os.path.join(ROOT, "known_findings.json")))
    fixed = [f for f in kf if f["status"] == "fixed" and (not ids or f["id"] in ids)]

    def one(f):
        def prep(wt):
            for c in f.get("also_revert", []):   # later fixes that touch the same lines come off first
                r = sh("git -C %s show %s -- . ':!*_test.go' | git -C %s apply -R" % (wt, c, wt))
                if r.returncode:
                    return r
            return sh("git -C %s show %s -- . ':!*_test.go' | git -C %s apply -R" % (wt, f["commit"], wt))
        return f, with_tree(f["id"], prep, [f["property"]] + f.get("also", []))
    with concurrent.futures.ThreadPoolExecutor(4) as ex:
        results = list(ex.map(one, fixed))
    ok = True
    summary = []
    for f, r in results:
        c = r.get("checks", {}).get(f["property"], {})
        caught = c.get("exit") == 1 and any(l.startswith("VIOLATION") for l in c.get("lines", []))
        withinput = caught and not any("no-failing-input-found" in l for l in c.get("lines", []))
        ok &= caught
        summary.append({"id": f["id"], "commit": f["commit"], "caught": caught, "failing_input": withinput, "result": r})
        print("%-14s %s caught=%s failing-input=%s %s" % (f["id"], f["commit"], caught, withinput, r.get("error", "")))
    os.makedirs(os.path.join(ROOT, "build", "selftest"), exist_ok=True)
    merge_results("revert-fixes.json", summary)
    return ok


def seeded(ids):
    base = os.path.join(ROOT, "seeded")
    names = sorted(d for d in os.listdir(base) if os.path.exists(os.path.join(base, d, "patch.diff")) and (not ids or d in ids))

    def one(n):
        meta = json.load(open(os.path.join(base, n, "meta.json")))
        def prep(wt):
            return sh("git -C %s apply %s" % (wt, os.path.join(base, n, "patch.diff")))
        return n, meta, with_tree("seeded-" + n, prep, meta.get("checks", [meta["property"]]))
    with concurrent.futures.ThreadPoolExecutor(4) as ex:
        results = list(ex.map(one, names))
    allok = True
    summary = []
    for n, meta, r in results:
        c = r.get("checks", {}).get(meta["property"], {})
        caught = c.get("exit") == 1
        withinput = caught and not any("no-failing-input-found" in l for l in c.get("lines", []))
        allok &= caught
        summary.append({"id": n, "property": meta["property"], "caught": caught, "failing_input": withinput, "result": r})
        print("%-28s %s caught=%s failing-input=%s %s" % (n, meta["property"], caught, withinput, r.get("error", "")))
    merge_results("seeded.json", summary)
    return allok


GOENV = "export GOFLAGS=-mod=mod GOPROXY=off GOSUMDB=off GOTOOLCHAIN=local; "


def import_seed(prop, k):
    """Confirm a sub-agent's mutant in its scratch worktree /tmp/seed/<prop> (demo passes on the clean tree,
    the patched tree builds, passes the unedited suite and fails the demo) and keep it as seeded/<prop>-m<k>/."""
    wt = os.path.join(os.environ.get("SEED_DIR", "/tmp/seed"), prop)
    src = os.path.join(wt, "_seed", "mutant%s" % k)
    demo = open(os.path.join(src, "demo_test.go")).read()
    first = demo.split("\n", 1)[0]
    place = first.split("place in:")[1].strip().strip("`").strip() if "place in:" in first else "."
    place = place.split()[0] if place.split() else "."
    place = place.rstrip("/").rstrip(",;") or "."
    if not os.path.isdir(os.path.join(wt, place)):
        place = "."
    if place in ("repo root", "root", "/"):
        place = "."
    dst = os.path.join(wt, place, "zz_seed_demo_test.go")
    ran = []
    def run(cmd):
        r = sh(GOENV + cmd, cwd=wt)
        ran.append({"cmd": cmd, "exit": r.returncode, "tail": r.stdout[-600:]})
        return r
    sh("git checkout -- . ", cwd=wt)
    shutil.copy(os.path.join(src, "demo_test.go"), dst)
    try:
        a = run("go test -count=1 -run TestSeed ./%s" % place)
        os.remove(dst)
        b = run("git apply _seed/mutant%s/patch.diff && go build ./... && go test -count=1 ./..." % k)
        shutil.copy(os.path.join(src, "demo_test.go"), dst)
        c = run("go test -count=1 -run TestSeed ./%s" % place)
    finally:
        if os.path.exists(dst):
            os.remove(dst)
        sh("git checkout -- .", cwd=wt)
    ok = a.returncode == 0 and b.returncode == 0 and c.returncode != 0 and "FAIL" in c.stdout
    name = "%s-%sm%s" % (prop, os.environ.get("SEED_TAG", ""), k)
    print(name, "confirmed" if ok else "NOT CONFIRMED", [(x["exit"]) for x in ran])
    if not ok:
        for x in ran:
            print(x)
        return False
    out = os.path.join(ROOT, "seeded", name)
    os.makedirs(out, exist_ok=True)
    for f in ("patch.diff", "demo_test.go", "notes.md"):
        if os.path.exists(os.path.join(src, f)):
            shutil.copy(os.path.join(src, f), os.path.join(out, f))
    notes = open(os.path.join(src, "notes.md")).read() if os.path.exists(os.path.join(src, "notes.md")) else ""
    json.dump({"property": prop, "checks": [prop], "origin": "fresh sub-agent given only the property text and a scratch worktree of /repo at %s" % sh("git -C /repo rev-parse --short HEAD").stdout.strip(),
               "demo_placement": place, "needs_to_manifest": notes, "confirmed_by": ran},
              open(os.path.join(out, "meta.json"), "w"), indent=1)
    return True


def import_benign(prop, k):
    """Confirm a sub-agent's behaviour-preserving change in its scratch worktree (the equivalence test
    passes on the clean tree; the patched tree builds, passes the unedited suite and the equivalence
    test) and keep it as benign/<prop>-b<k>/."""
    wt = os.path.join(os.environ.get("SEED_DIR", "/tmp/seed4"), prop)
    src = os.path.join(wt, "_seed", "benign%s" % k)
    demo = open(os.path.join(src, "equiv_test.go")).read()
    first = demo.split("\n", 1)[0]
    place = first.split("place in:")[1].strip().strip("`").strip() if "place in:" in first else "."
    place = (place.split()[0] if place.split() else ".").rstrip("/").rstrip(",;") or "."
    if not os.path.isdir(os.path.join(wt, place)) or place in ("repo root", "root", "/"):
        place = "."
    dst = os.path.join(wt, place, "zz_seed_equiv_test.go")
    ran = []
    def run(cmd):
        r = sh(GOENV + cmd, cwd=wt)
        ran.append({"cmd": cmd, "exit": r.returncode, "tail": r.stdout[-600:]})
        return r
    sh("git checkout -- . ", cwd=wt)
    shutil.copy(os.path.join(src, "equiv_test.go"), dst)
    try:
        a = run("go test -count=1 -run TestSeed ./%s" % place)
        os.remove(dst)
        b = run("git apply _seed/benign%s/patch.diff && go build ./... && go test -count=1 ./..." % k)
        shutil.copy(os.path.join(src, "equiv_test.go"), dst)
        c = run("go test -count=1 -run TestSeed ./%s" % place)
    finally:
        if os.path.exists(dst):
            os.remove(dst)
        sh("git checkout -- .", cwd=wt)
    ok = a.returncode == 0 and b.returncode == 0 and c.returncode == 0
    name = "%s-b%s" % (prop, k)
    print(name, "confirmed" if ok else "NOT CONFIRMED", [(x["exit"]) for x in ran])
    if not ok:
        for x in ran:
            print(x)
        return False
    out = os.path.join(ROOT, "benign", name)
    os.makedirs(out, exist_ok=True)
    for f in ("patch.diff", "equiv_test.go", "notes.md"):
        if os.path.exists(os.path.join(src, f)):
            shutil.copy(os.path.join(src, f), os.path.join(out, f))
    notes = open(os.path.join(src, "notes.md")).read() if os.path.exists(os.path.join(src, "notes.md")) else ""
    json.dump({"property": prop, "checks": [prop], "origin": "fresh sub-agent given only the property text and a scratch worktree of /repo at %s, asked for a change that keeps the property true" % sh("git -C /repo rev-parse --short HEAD").stdout.strip(),
               "test_placement": place, "why_property_still_holds": notes, "confirmed_by": ran},
              open(os.path.join(out, "meta.json"), "w"), indent=1)
    return True


def benign(ids):
    """Apply each behaviour-preserving change to a scratch worktree and run its property's quick check: the
    check must not report a violation with a failing input (a broken correspondence, reported as
    no-failing-input-found, is what a rewrite is entitled to; it is counted separately)."""
    base = os.path.join(ROOT, "benign")
    names = sorted(d for d in os.listdir(base) if os.path.exists(os.path.join(base, d, "patch.diff")) and (not ids or d in ids))

    def one(n):
        meta = json.load(open(os.path.join(base, n, "meta.json")))
        def prep(wt):
            return sh("git -C %s apply %s" % (wt, os.path.join(base, n, "patch.diff")))
        return n, meta, with_tree("benign-" + n, prep, meta.get("checks", [meta["property"]]))
    with concurrent.futures.ThreadPoolExecutor(4) as ex:
        results = list(ex.map(one, names))
    allok = True
    summary = []
    for n, meta, r in results:
        c = r.get("checks", {}).get(meta["property"], {})
        lines = c.get("lines", [])
        alarm = any(l.startswith("VIOLATION") and "no-failing-input-found" not in l for l in lines) or c.get("exit") not in (0, 1)
        corr = any(l.startswith("VIOLATION") and "no-failing-input-found" in l for l in lines)
        quiet = c.get("exit") == 0
        allok &= not alarm and not r.get("error")
        summary.append({"id": n, "property": meta["property"], "quiet": quiet, "correspondence_only": corr, "false_alarm": alarm, "result": r})
        print("%-12s %s quiet=%s correspondence-only=%s FALSE-ALARM=%s %s" % (n, meta["property"], quiet, corr, alarm, r.get("error", "")))
    merge_results("benign.json", summary)
    return allok


def build_corpus():
    """corpus/<prop>.cases: the failing inputs the checks reported for reverted fixes and seeded changes
    (minimal cases first on every run, whatever the seed)."""
    cases = {}
    for name in ("revert-fixes.json", "seeded.json"):
        path = os.path.join(ROOT, "build", "selftest", name)
        if not os.path.exists(path):
            continue
        for e in json.load(open(path)):
            for prop, c in e["result"].get("checks", {}).items():
                rp = c.get("replay") or {}
                if rp.get("kind") == "failing-input":
                    for line in rp.get("cases", []):
                        # op 703 is a recorded concurrent trace (judged as data, whatever the tree): not an input
                        if len(line) < 6000 and not line.startswith("703 "):
                            cases.setdefault(prop, []).append((e["id"], line))
    os.makedirs(os.path.join(ROOT, "corpus"), exist_ok=True)
    for prop, items in cases.items():
        path = os.path.join(ROOT, "corpus", prop + ".cases")
        old = open(path).read().split("\n") if os.path.exists(path) else []
        seen = set(l for l in old if l and not l.startswith("%"))
        with open(path, "a") as f:
            for ident, line in items:
                if line not in seen:
                    seen.add(line)
                    f.write("%% failing input reported when %s was applied\n%s\n" % (ident, line))
    print({p: len(v) for p, v in cases.items()})


if __name__ == "__main__":
    mode = sys.argv[1]
    if mode == "corpus":
        build_corpus()
        sys.exit(0)
    if mode == "import-seed":
        ok = all([import_seed(sys.argv[2], k) for k in sys.argv[3:]])
    elif mode == "import-benign":
        ok = all([import_benign(sys.argv[2], k) for k in sys.argv[3:]])
    elif mode == "benign":
        ok = benign(sys.argv[2:])
    else:
        ok = revert_fixes(sys.argv[2:]) if mode == "revert-fixes" else seeded(sys.argv[2:])
    sys.exit(0 if ok else 1)
