#!/usr/bin/env python3
"""Writes /verif/MANIFEST.json (kept as a script so that the 20 entries stay consistent)."""
import json, os, subprocess
ROOT = os.path.dirname(os.path.dirname(os.path.abspath(__file__)))

NOTE = ("Trusted: the Coq 8.16.1 kernel (vm_compute for finite sweeps and witnesses; no native_compute; no axioms - every theorem "
        "prints 'Closed under the global context', coqchk -o reports 'Axioms: <none>' in the thorough tier); the hand-written Gallina "
        "model is modelled, not verified, code: it is tied to /repo's working tree on every run by the correspondence check "
        "(extracted with ExtrOcamlBasic only, no Extract Constant, Z/positive/nat kept inductive; generic OCaml driver; Go harness built "
        "against /repo with -tags verif), sampled from VERIF_SEED except where the evidence says exhaustive; Go toolchain, unsafe.SliceData "
        "address comparison for provenance. ")

P = {
 "C01": ("Full statement proved: for every wf_packet (all four extension shapes, 0-15 CSRCs, any payload, padding 1-255) Marshal succeeds with MarshalSize bytes and Unmarshal returns an equal packet; same for headers (C01_packet_roundtrip, C01_header_roundtrip).", ""),
 "C02": ("Full statement proved for all byte strings and all previous receiver values: no panic, bounds, payload and extension values are the input bytes at the reported offsets, reuse = fresh as an equality of results in every field (C02_no_panic, C02_bounds, C02_header_bounds, C02_reuse_*; the equality became true with repair D26).", ""),
 "C03": ("Proved: every well-formed RFC 3550/8285 wire image (Spec/Rfc3550.v, padding anywhere, zero-length two-byte elements, legacy blocks) without a reserved id 15 decodes to what it was built from; C03_reencode: EVERY input Packet.Unmarshal accepts into a fresh Packet decodes to a well-formed packet whose Marshal output decodes to the same packet (sole exception, stated: P bit with zero count is refused by Marshal); standalone one-/two-byte views agree with the header, the two-byte form with any application bits (profiles 0x1000-0x100F, D31). C03_decode_rfc_partial + C03_reserved15_refuted: reserved id 15 is known finding KF-C03-reserved15 (pinned by an upstream test). C03_raw_view_value_refuted: the raw view reports the whole block, header word included, as its value where the header decoder reports the block without it - known finding KF-C03-raw-view-value (no small repair).", "The raw (RFC 3550) view keeps the byte string it was handed under id 0 (C03_raw_view); all three views re-serialise byte-identically (C03_view_reserialise)."),
 "C04": ("Full statement proved: short destination -> short-buffer error, never Panic; sufficient destination -> exactly Marshal() followed by the untouched tail of the destination, for every prior content (C04_*_short, C04_*_exact).", ""),
 "C05": ("Full statement proved: refinement of Set/Del/Get/GetIDs to an ordered map over all op sequences and the four starts, errors leave the header unchanged, Marshal total on every reachable header, accepted values survive the wire (legacy non-multiple-of-4 is the only refusal).", ""),
 "C06": ("Full statement proved parametrically in the payloader: numbering mod 2^16 across calls, timestamps, marker, payloads unchanged, MTU bound given the payloader honours its budget - also with the abs-send-time element (ids 1-255, one-byte or two-byte form; C06_mtu_abs, after repair D24) on the last packet only, padding packets valid, over arbitrary histories (C06_history).", "The clock and the initial timestamp are parameters (verif hook injects them)."),
 "C07": ("Proved for the counter logic over all interleavings of atomic steps: successive values, rollover count = number of zeros handed out, extended value strictly increasing, fixed and random start ranges. Partial by nature: that sync.Mutex makes the two methods atomic and race-free is a fact about the Go runtime; it is sampled under the race detector with a linearizability check of recorded concurrent histories.", "randutil Intn(n) in [0,n) is a hypothesis of C07_random_start; the verif hook VerifSetRand drives the boundary draws."),
 "C08": ("Proved for all eight payloaders, every MTU 0-65535, every input and every reachable state: no panic (termination included), fragments 1..MTU bytes (Opus: the input), non-empty, owned (no View in state or output, hence independent of later writes to the input: C08_owned_is_independent). 'Input buffer not written' is outside an immutable model and is observed per case with guard bytes.", "Ownership of the implementation's memory is observed (address overlap + overwrite differential), not proved about Go's allocator."),
 "C09": ("Proved: totality of every depacketizer on arbitrary input and arbitrary receiver state (H264, H265, VP8, VP9, Opus, AV1Depacketizer, AV1Packet); reuse = fresh for VP8/VP9 (and H265, Opus by construction). Ownership of retained fragment state (H264Packet, AV1Depacketizer) is decided by correspondence with a store-free model plus the overwrite differential on the implementation.", "Metadata after a failed call is not compared."),
 "C10": ("Proved: Annex-B split; single/FU-A shape and reassembly; C10_lossless / C10_access_unit at full strength (any sequence of valid units, any MTU 3..65535, any payloader state reachable on valid input, Annex-B or AVC receiver with any stale buffer -> exactly the units the hold-back rule delivers; a held SPS/PPS pair too large for one STAP-A goes out as two units - the former finding KF-C10-stapa-drop, repaired in /repo by f9f14ce); C10_nothing_lost (the hold-back rule loses and reorders nothing for any sequence of units - several PPS behind one SPS, lone parameter sets, any order; this became true with repair D25); C10_decode_rfc (any plan of the independent RFC 6184 encoder, empty fragments included); IsPartitionHead on single / STAP-A / FU-A payloads.", ""),
 "C11": ("Full statement proved: lossless split with S on the first fragment only, PID 0, picture id forms and +1 mod 2^15 per frame from 0; every RFC 7741 descriptor decodes to its fields for any receiver state; every strict prefix of a descriptor is rejected.", ""),
 "C12": ("Full statement proved: flexible and non-flexible losslessness with B/E/P, picture id step, scalability structure with the frame header's width/height on key frames; C12_bits (bit reader = bit range), C12_header (bitstream syntax -> parser result, profiles 0-3, all colour configurations, sizes 1-65535), C12_decode / C12_truncated for the payload descriptor, totality and reuse.", "Frames with show_existing_frame have no frame type; 65536-pixel sizes wrap in the 16-bit fields (stated bound)."),
 "C13": ("Proved: C13_lossless and C13_lossless_unsized_last (every OBU sequence - any types incl. sequence headers, temporal delimiters, tile lists; any extension headers; last size field present or omitted - and every MTU 2..2^21: the payloader output is the wire image of a well-chained sequence of structured aggregation packets of at most MTU bytes (W = element count or 0 with all elements length-prefixed, no empty element, Z = previous Y, first Z = 0, last Y = 0) whose glued elements are exactly the transmitted OBUs with the size flag cleared, and AV1Depacketizer from any state returns them with size fields, temporal delimiters and tile lists removed); C13_depack_sem (decoder = aggregation-header semantics for any well-chained packet sequence: Z/Y fragments mixed with complete elements, W = 0..3); LEB128 inverse below 2^56 and read bounds; OBU header inverse both ways (2^16 enumeration lifted by forallb_forall). C13_legacy_sem / C13_lossless_legacy: the deprecated AV1Packet + frame assembler path returns exactly the glued elements for any well-chained packet sequence, hence the transmitted OBUs for payloader output (its 8-bit element index, D22, was found while proving this and repaired in /repo). C13_rule_layers / C13_rule_layers_unsized_last: the output is the concatenation, group by group, of self-contained packet runs (first Z = 0, last Y = 0) carrying exactly the group's OBUs, where the groups are cut at every temporal delimiter, sequence header and layer-id change; inside a group all extension headers carry the same temporal and spatial id, and a sequence header / temporal delimiter is the first OBU of its group. The full statement is proved.", ""),
 "C14": ("Proved: all accessor theorems (arithmetic, whole domains), parser totality, C14_parse_forms (every well-formed single / aggregation / FU / PACI payload with and without DONL from the independent RFC 7798 encoder decodes to its fields; TSCI), C14_parse_truncated (every prefix that cuts into the minimal structure of its form is refused with an error), FU / single / aggregation shape, C14_lossless_partial (whole Payload call, AddDONL off, every sequence of valid units of any length, MTU 4..65535 - units of MTU-1 bytes included since repair D12), C14_donl_aggregation_is_rfc + C14_lossless_donl_partial (AddDONL on, units that are not fragmented: the output IS the RFC 7798 encoding with DONL/DOND and comes back in order). One known finding pinned by an upstream test: KF-C14-donl-every-fu (DONL in every FU), with a _refuted witness.", ""),
 "C15": ("Full statement proved: after an arbitrary history (any payloads, any loss, garbage) a complete H264 frame / AV1 payloader output decodes as on a fresh receiver (history universally quantified).", ""),
 "C16": ("Full statement proved: G711/G722 split (concatenation, all but the last fragment exactly MTU bytes), Opus pass-through as an owned copy, OpusPacket accept/reject, partition head/tail.", ""),
 "C17": ("Full statement proved for the five codecs: exact layouts on the in-range domains, errors outside, decode of every sufficient input for every previous receiver value, short input rejected, never Panic, round trip.", ""),
 "C18": ("Full statement proved with Go's 64-bit arithmetic written out: capture time within 1 ns over 1970-2036, offset within 1 ns with sign below 2^31 s, Estimate within one 2^-18 s quantum (+1 ns) for delays in [0, 64 s - 2^-18 s) across wraps.", "The time.Time <-> UnixNano boundary is Go's standard library and is trusted."),
 "C19": ("Proved: C19_layout (Marshal = spec byte layout, no surplus byte), C19_roundtrip into any used receiver, C19_rejects (iff), C19_total. All non-negative int bitrates (below 2^63) since the repair of D19 (ReadLeb128 reads back every uint WriteToLeb128 writes: C19_leb128_inverse below 2^64).", ""),
 "C20": ("Full statement proved over an explicit heap model: clone equal (incl. padding size, PayloadOffset), all blocks fresh, and every store/alloc sequence applied to one side leaves the other side's reads unchanged (frame theorem).", "That the implementation allocates where the model says 'fresh' is observed per case (address overlap, mutation of either side incl. SetExtension on both), not proved about Go's allocator."),
}

def main():
    hooks = subprocess.run("git -C /repo log --format=%h --grep='^verif:' --reverse", shell=True, capture_output=True, text=True).stdout.split()
    m = {
        "version": 1,
        "setup_cmd": "./check setup",
        "hooks": {
            "guard": "verif",
            "enable": "go build -tags verif: the harness module (harness/go.mod, replace github.com/pion/rtp => /repo) is rebuilt against /repo's working tree with -tags verif on every run",
            "baseline_off_cmd": "cd /repo && GOFLAGS=-mod=mod GOPROXY=off go test -json -vet=off -count=1 -timeout 25m ./...",
            "source_commits": hooks,
            "add_only": True,
        },
        "engines": [{
            "name": "coq-model+correspondence", "path": "/verif/check", "serves_properties": sorted(P),
            "kind_free_text": "Coq 8.16.1 development (coq/: Base, Model, Spec, Proofs, Properties, Extract), extracted OCaml model runner (runner/driver.ml + extracted model), Go differential harness with property oracles (harness/), Python orchestrator (check), mutation self-test (lib/selftest.py, seeded/)",
        }],
        "checks": [],
        "notes": "Every check: (1) full make of the Coq development + Print Assumptions under every theorem of Properties/<id>.v + lint (no Admitted/admit/Axiom/Parameter/...); (2) harness rebuilt against /repo with -tags verif; (3) correspondence: corpus + generated cases run on the implementation and on the extracted model, observables compared line by line; (4) the property's own oracle on the implementation; (5) verdict per DESIGN.md section 5 and evidence. Thorough adds a clean rebuild + coqchk -o over all Properties modules (shared stamp), 50-200x the cases, and an in-Coq vm_compute re-evaluation of a 300-case sub-corpus. known_findings.json lists 3 open findings (C03 reserved id 15 and C14 DONL in every FU, both pinned by upstream tests; C03 raw-view value, which has no small repair) and 35 'fixed:' records.",
        "not_applicable": [],
    }
    for pid in sorted(P):
        text, extra = P[pid]
        m["checks"].append({
            "property_id": pid,
            "quick_cmd": "./check %s --tier quick" % pid,
            "thorough_cmd": "./check %s --tier thorough" % pid,
            "evidence_file": "/verif/evidence/%s.json" % pid,
            "replay_cmd_template": "./check %s --replay {path}" % pid,
            "engine": "coq-model+correspondence",
            "level_claimed": {"category": "proof", "text": text + " The theorems are about the executable Gallina model; a checked correspondence (differential run of the extracted model and the implementation on the same cases, plus independent oracles on the implementation) ties the model to /repo on every run.",
                              "design_ref": "DESIGN.md section 6 (%s) and section 11" % pid},
            "level_note": NOTE + extra,
            "technique": "machine-checked proof in Rocq (Coq 8.16.1) over a hand-written executable model + model/implementation correspondence check",
        })
    json.dump(m, open(os.path.join(ROOT, "MANIFEST.json"), "w"), indent=1)

if __name__ == "__main__":
    main()
